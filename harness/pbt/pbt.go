// Package pbt is the glue between rapid, the per-property machines and the check driver:
// statistics for the evidence files, violation/replay files, known-finding exclusions.
package pbt

import (
	"crypto/sha256"
	"encoding/json"
	"errors"
	"fmt"
	"os"
	"path/filepath"
	"runtime/debug"
	"sort"
	"sync"
	"testing"
	"time"

	"pgregory.net/rapid"
)

// Violation is an oracle failure with a structural signature (used to match known findings).
type Violation struct {
	Sig string
	Msg string
}

func (v *Violation) Error() string { return v.Sig + ": " + v.Msg }

// Failf builds a violation.
func Failf(sig, format string, args ...interface{}) error {
	return &Violation{Sig: sig, Msg: fmt.Sprintf(format, args...)}
}

// ---------------------------------------------------------------------------------------------
// known findings (read-only at run time)

type knownEntry struct {
	Property string `json:"property"`
	Sig      string `json:"sig"`
	Status   string `json:"status"` // "known" | "fixed"
}

var (
	knownOnce sync.Once
	knownSigs map[string]bool
)

// IsKnown reports whether sig is listed as a known (unrepaired) finding.
func IsKnown(sig string) bool {
	knownOnce.Do(func() {
		knownSigs = map[string]bool{}
		p := os.Getenv("VERIF_KNOWN")
		if p == "" {
			p = "/verif/known_findings.json"
		}
		bz, err := os.ReadFile(p)
		if err != nil {
			return
		}
		var f struct {
			Findings []knownEntry `json:"findings"`
		}
		if json.Unmarshal(bz, &f) != nil {
			return
		}
		if os.Getenv("VERIF_IGNORE_KNOWN") != "" {
			return
		}
		for _, e := range f.Findings {
			if e.Status == "known" {
				knownSigs[e.Sig] = true
			}
		}
	})
	return knownSigs[sig]
}

// ---------------------------------------------------------------------------------------------
// statistics

// Stats accumulates what a test explored.
type Stats struct {
	mu          sync.Mutex
	Property    string            `json:"property"`
	Name        string            `json:"name"`
	Evaluations int               `json:"evaluations"`
	NT          map[string]bool   `json:"-"`
	NTList      []string          `json:"nontrivial_digests"`
	Classes     map[string]int    `json:"classes"`
	Excluded    map[string]int    `json:"excluded_by_known_finding"`
	Samples     []json.RawMessage `json:"samples"`
	Rule        string            `json:"rule"`
	Exhaustive  bool              `json:"exhaustive"`
	WallS       float64           `json:"wall_s"`
	Violations  int               `json:"violations"`
	start       time.Time
}

// NewStats creates the statistics of one test function.
func NewStats(property, name, rule string) *Stats {
	return &Stats{Property: property, Name: name, Rule: rule, NT: map[string]bool{}, Classes: map[string]int{},
		Excluded: map[string]int{}, start: time.Now()}
}

// Digest of any JSON-able value (first 8 bytes of SHA-256, hex).
func Digest(v interface{}) string {
	bz, _ := json.Marshal(v)
	s := sha256.Sum256(bz)
	return fmt.Sprintf("%x", s[:8])
}

// Case records one executed case.
func (s *Stats) Case(v interface{}, nontrivial bool, classes []string) {
	s.mu.Lock()
	defer s.mu.Unlock()
	s.Evaluations++
	for _, c := range classes {
		s.Classes[c]++
	}
	if nontrivial {
		s.NT[Digest(v)] = true
		s.Classes["nontrivial"]++
	}
	// keep up to 3 non-trivial samples (else the first case) — small ones preferred
	if len(s.Samples) < 3 && (nontrivial || s.Evaluations == 1) {
		bz, _ := json.Marshal(v)
		if len(bz) > 6000 { // long histories: keep the head of the case as text
			bz, _ = json.Marshal(map[string]interface{}{"truncated_to_bytes": 6000, "of_bytes": len(bz), "head": string(bz[:6000])})
		}
		s.Samples = append(s.Samples, bz)
	}
}

// Exclude counts a case hit by a known finding.
func (s *Stats) Exclude(sig string) {
	s.mu.Lock()
	s.Excluded[sig]++
	s.mu.Unlock()
}

// Class bumps a class counter outside Case.
func (s *Stats) Class(c string, n int) {
	s.mu.Lock()
	s.Classes[c] += n
	s.mu.Unlock()
}

// OutDir is where statistics and violation files go.
func OutDir() string {
	d := os.Getenv("VERIF_OUT")
	if d == "" {
		d = filepath.Join(os.TempDir(), "verif-out")
	}
	_ = os.MkdirAll(d, 0o755)
	return d
}

// Flush writes the statistics file.
func (s *Stats) Flush() {
	s.mu.Lock()
	defer s.mu.Unlock()
	s.WallS = time.Since(s.start).Seconds()
	s.NTList = s.NTList[:0]
	for d := range s.NT {
		s.NTList = append(s.NTList, d)
	}
	sort.Strings(s.NTList)
	bz, _ := json.Marshal(s)
	p := filepath.Join(OutDir(), fmt.Sprintf("stats-%s-%s-%d.json", s.Property, s.Name, os.Getpid()))
	_ = os.WriteFile(p, bz, 0o644)
}

// ---------------------------------------------------------------------------------------------
// violation / replay files

// ReplayFile is the on-disk form of a failing (or seed) case.
type ReplayFile struct {
	Property string          `json:"property"`
	Machine  string          `json:"machine"`
	Sig      string          `json:"sig,omitempty"`
	Error    string          `json:"error,omitempty"`
	Case     json.RawMessage `json:"case"`
}

func writeViolation(property, machine string, cs interface{}, err error) string {
	bz, _ := json.Marshal(cs)
	rf := ReplayFile{Property: property, Machine: machine, Error: err.Error(), Case: bz}
	var v *Violation
	if errors.As(err, &v) {
		rf.Sig = v.Sig
	}
	out, _ := json.MarshalIndent(rf, "", " ")
	p := filepath.Join(OutDir(), fmt.Sprintf("violation-%s-%s-%d.json", property, machine, os.Getpid()))
	_ = os.WriteFile(p, out, 0o644)
	return p
}

// ---------------------------------------------------------------------------------------------
// machines (histories) and pure checks

// Machine is a stateful property: Next draws the next operation from the live state, Apply executes it
// against the code under test and the reference model and returns an error for an oracle violation.
type Machine[O any] interface {
	Next(t *rapid.T) O
	Apply(op O) error
	// Finish runs end-of-history checks.
	Finish() error
	// Classify tells whether the executed history was non-trivial and which classes it falls in.
	Classify() (bool, []string)
}

type replayer func(t *testing.T, raw json.RawMessage) error

var (
	regMu    sync.Mutex
	registry = map[string]replayer{}
)

// History is what a machine case serialises to.
type History[O any] struct {
	Ops []O `json:"ops"`
}

// RegisterMachine makes a machine replayable by name.
func RegisterMachine[O any](name string, mk func() Machine[O]) {
	regMu.Lock()
	defer regMu.Unlock()
	registry[name] = func(t *testing.T, raw json.RawMessage) error {
		var h History[O]
		if err := json.Unmarshal(raw, &h); err != nil {
			return fmt.Errorf("bad replay file: %w", err)
		}
		m := mk()
		for i, op := range h.Ops {
			if err := m.Apply(op); err != nil {
				return fmt.Errorf("op %d: %w", i, err)
			}
		}
		return m.Finish()
	}
}

// RegisterPure makes a pure check replayable by name.
func RegisterPure[I any](name string, check func(I) (error, bool, []string)) {
	regMu.Lock()
	defer regMu.Unlock()
	registry[name] = func(t *testing.T, raw json.RawMessage) error {
		var in I
		if err := json.Unmarshal(raw, &in); err != nil {
			return fmt.Errorf("bad replay file: %w", err)
		}
		err, _, _ := check(in)
		return err
	}
}

// Replay executes a replay file without rapid. It returns the oracle error (nil = the case passes).
func Replay(t *testing.T, path string) error {
	bz, err := os.ReadFile(path)
	if err != nil {
		t.Fatalf("replay: %v", err)
	}
	var rf ReplayFile
	if err := json.Unmarshal(bz, &rf); err != nil {
		t.Fatalf("replay: %v", err)
	}
	regMu.Lock()
	r, ok := registry[rf.Machine]
	regMu.Unlock()
	if !ok {
		t.Fatalf("replay: unknown machine %q", rf.Machine)
	}
	err = safely(func() error { return r(t, rf.Case) })
	if _, known := knownHit(err); known {
		return nil // excluded by a listed known finding (never the case when VERIF_IGNORE_KNOWN is set)
	}
	return err
}

func safely(f func() error) (err error) {
	defer func() {
		if p := recover(); p != nil {
			err = Failf("harness/panic", "%v\n%s", p, debug.Stack())
		}
	}()
	return f()
}

// knownHit returns the signature if err is a violation listed as known.
func knownHit(err error) (string, bool) {
	var v *Violation
	if errors.As(err, &v) && IsKnown(v.Sig) {
		return v.Sig, true
	}
	return "", false
}

// RunMachine drives a machine with rapid (t.Repeat; history length from -rapid.steps).
func RunMachine[O any](t *testing.T, property, name, rule string, mk func() Machine[O]) {
	st := NewStats(property, name, rule)
	defer st.Flush()
	rapid.Check(t, func(rt *rapid.T) {
		m := mk()
		h := History[O]{}
		stopped := false
		fail := func(err error) {
			if sig, ok := knownHit(err); ok {
				st.Exclude(sig)
				stopped = true
				return
			}
			st.mu.Lock()
			st.Violations++
			st.mu.Unlock()
			p := writeViolation(property, name, h, err)
			rt.Fatalf("VIOLATION-FILE %s\n%v", p, err)
		}
		rt.Repeat(map[string]func(*rapid.T){
			"op": func(rt *rapid.T) {
				if stopped { // case stopped by a known finding: remaining steps are no-ops
					return
				}
				op := m.Next(rt)
				h.Ops = append(h.Ops, op)
				if err := safely(func() error { return m.Apply(op) }); err != nil {
					fail(err)
				}
			},
		})
		if !stopped {
			if err := safely(m.Finish); err != nil {
				fail(err)
			}
		}
		if !stopped {
			nt, classes := m.Classify()
			st.Case(h, nt, classes)
		}
	})
}

// RunPure drives a pure check: gen draws an input, check judges it.
func RunPure[I any](t *testing.T, property, name, rule string, gen func(*rapid.T) I, check func(I) (error, bool, []string)) {
	st := NewStats(property, name, rule)
	defer st.Flush()
	rapid.Check(t, func(rt *rapid.T) {
		in := gen(rt)
		var nt bool
		var classes []string
		err := safely(func() error {
			var e error
			e, nt, classes = check(in)
			return e
		})
		if err != nil {
			if sig, ok := knownHit(err); ok {
				st.Exclude(sig)
				return
			}
			st.mu.Lock()
			st.Violations++
			st.mu.Unlock()
			p := writeViolation(property, name, in, err)
			rt.Fatalf("VIOLATION-FILE %s\n%v", p, err)
		}
		st.Case(in, nt, classes)
	})
}

// Enumerate runs check over a finite list (exhaustive sub-space).
func Enumerate[I any](t *testing.T, property, name, rule string, items []I, check func(I) (error, bool, []string)) {
	st := NewStats(property, name, rule)
	st.Exhaustive = true
	defer st.Flush()
	for _, in := range items {
		err, nt, classes := check(in)
		if err != nil {
			if sig, ok := knownHit(err); ok {
				st.Exclude(sig)
				continue
			}
			st.Violations++
			p := writeViolation(property, name, in, err)
			t.Errorf("VIOLATION-FILE %s\n%v", p, err)
			continue
		}
		st.Case(in, nt, classes)
	}
}

// ReplayMain is the body of every package's TestReplay: it replays $VERIF_REPLAY without rapid; a failing
// test means the saved case still violates its property.
func ReplayMain(t *testing.T) {
	p := os.Getenv("VERIF_REPLAY")
	if p == "" {
		t.Skip("VERIF_REPLAY not set")
	}
	if err := Replay(t, p); err != nil {
		t.Fatalf("REPLAY-VIOLATION %v", err)
	}
}

// WriteViolation saves a failing case in the replay-file format and returns its path (for tests that drive
// rapid themselves).
func WriteViolation(property, machine string, cs interface{}, err error) string {
	return writeViolation(property, machine, cs, err)
}
