// Package evm is a small transactional in-memory EVM that implements token/types.EVMKeeper.
// It decodes the ABI calls the token keeper makes (proxy deployment, ERC20 name/symbol/decimals/
// balanceOf/mint/burn, beacon upgradeTo) with the repository's own contracts package.
// All state lives in a *State value that the K-driver snapshots per message and per case, which is
// what an EVM state DB bound to the SDK context does in a real application.
package evm

import (
	"context"
	"fmt"
	"math/big"
	"sort"

	cryptotypes "github.com/cosmos/cosmos-sdk/crypto/types"
	sdk "github.com/cosmos/cosmos-sdk/types"
	"github.com/ethereum/go-ethereum/common"
	"github.com/ethereum/go-ethereum/core"
	ethtypes "github.com/ethereum/go-ethereum/core/types"
	"github.com/ethereum/go-ethereum/core/vm"
	"github.com/ethereum/go-ethereum/crypto"

	"mods.irisnet.org/modules/token/contracts"
	tokentypes "mods.irisnet.org/modules/token/types"
)

// Fault kinds injected into the next state-changing call.
type Fault int

const (
	NoFault             Fault = iota
	FaultError                // ApplyMessage returns an error
	FaultRevert               // result has VMError "execution reverted"
	FaultMiscreditPlus        // mint/burn applies amount+1
	FaultMiscreditMinus       // mint/burn applies amount-1
	FaultSilentNoop           // call "succeeds" but changes nothing
)

func (f Fault) String() string {
	return [...]string{"none", "error", "revert", "miscredit+1", "miscredit-1", "noop"}[f]
}

// Contract is one deployed ERC20.
type Contract struct {
	Address common.Address
	Name    string
	Symbol  string
	Scale   uint8
	Bal     map[common.Address]*big.Int
	Total   *big.Int
}

// State is the whole EVM state.
type State struct {
	Contracts map[common.Address]*Contract
	Nonces    map[common.Address]uint64
	// Faults are consumed one per committing mint/burn/create call.
	Faults []Fault
	// Beacon implementation recorded by upgradeTo.
	Implementation common.Address
}

// NewState returns an empty state.
func NewState() *State {
	return &State{Contracts: map[common.Address]*Contract{}, Nonces: map[common.Address]uint64{}}
}

// Clone deep-copies the state.
func (s *State) Clone() *State {
	n := NewState()
	for a, c := range s.Contracts {
		cc := &Contract{Address: c.Address, Name: c.Name, Symbol: c.Symbol, Scale: c.Scale, Bal: map[common.Address]*big.Int{}, Total: new(big.Int).Set(c.Total)}
		for h, b := range c.Bal {
			cc.Bal[h] = new(big.Int).Set(b)
		}
		n.Contracts[a] = cc
	}
	for a, v := range s.Nonces {
		n.Nonces[a] = v
	}
	n.Faults = append([]Fault{}, s.Faults...)
	n.Implementation = s.Implementation
	return n
}

// Digest renders the state deterministically (for equality checks).
func (s *State) Digest() string {
	var addrs []string
	for a := range s.Contracts {
		addrs = append(addrs, a.Hex())
	}
	sort.Strings(addrs)
	out := ""
	for _, a := range addrs {
		c := s.Contracts[common.HexToAddress(a)]
		out += fmt.Sprintf("%s[%s/%s/%d total=%s", a, c.Name, c.Symbol, c.Scale, c.Total)
		var hs []string
		for h, b := range c.Bal {
			if b.Sign() != 0 {
				hs = append(hs, h.Hex()+"="+b.String())
			}
		}
		sort.Strings(hs)
		out += fmt.Sprint(hs) + "]"
	}
	return out + " impl=" + s.Implementation.Hex()
}

// BalanceOf reads a balance directly (observer side).
func (s *State) BalanceOf(contract, holder common.Address) *big.Int {
	c, ok := s.Contracts[contract]
	if !ok {
		return new(big.Int)
	}
	if b, ok := c.Bal[holder]; ok {
		return new(big.Int).Set(b)
	}
	return new(big.Int)
}

// TotalSupply of a contract.
func (s *State) TotalSupply(contract common.Address) *big.Int {
	c, ok := s.Contracts[contract]
	if !ok {
		return new(big.Int)
	}
	return new(big.Int).Set(c.Total)
}

// EVM implements tokentypes.EVMKeeper over a swappable State.
type EVM struct {
	cur *State
	// OnCreate is called after a successful contract creation so that the embedding driver can bump the
	// deployer's account sequence, as a real EVM does.
	OnCreate func(ctx sdk.Context, from common.Address)
	// Unsupported makes SupportedKey return false.
	Unsupported bool
}

var _ tokentypes.EVMKeeper = (*EVM)(nil)

// New returns an EVM with an empty state.
func New() *EVM { return &EVM{cur: NewState()} }

// Use installs the state all following calls operate on.
func (e *EVM) Use(s *State) { e.cur = s }

// Cur returns the installed state.
func (e *EVM) Cur() *State { return e.cur }

func (e *EVM) ChainID() *big.Int { return big.NewInt(16688) }

func (e *EVM) EstimateGas(ctx context.Context, req *tokentypes.EthCallRequest) (uint64, error) {
	return 3000000, nil
}

func (e *EVM) SupportedKey(pubKey cryptotypes.PubKey) bool { return !e.Unsupported }

func (e *EVM) takeFault(commit bool) Fault {
	if !commit || len(e.cur.Faults) == 0 {
		return NoFault
	}
	f := e.cur.Faults[0]
	e.cur.Faults = e.cur.Faults[1:]
	return f
}

// ApplyMessage implements types.EVMKeeper.
func (e *EVM) ApplyMessage(ctx sdk.Context, msg core.Message, tracer vm.EVMLogger, commit bool) (*tokentypes.Result, error) {
	s := e.cur
	if msg.To() == nil {
		f := e.takeFault(commit)
		if f == FaultError {
			return nil, fmt.Errorf("evm: injected error")
		}
		if f == FaultRevert {
			return &tokentypes.Result{VMError: vm.ErrExecutionReverted.Error()}, nil
		}
		contractAddr := crypto.CreateAddress(msg.From(), msg.Nonce())
		if _, exists := s.Contracts[contractAddr]; exists {
			return &tokentypes.Result{VMError: "contract address collision"}, nil
		}
		if len(msg.Data()) < len(contracts.TokenProxyContract.Bin) {
			return nil, fmt.Errorf("evm: unknown creation code")
		}
		data := msg.Data()[len(contracts.TokenProxyContract.Bin):]
		args, err := contracts.TokenProxyContract.ABI.Constructor.Inputs.Unpack(data)
		if err != nil {
			return nil, err
		}
		init := args[1].([]byte)
		args, err = contracts.ERC20TokenContract.ABI.Methods[contracts.MethodInitialize].Inputs.Unpack(init[4:])
		if err != nil {
			return nil, err
		}
		name, _ := args[0].(string)
		symbol, _ := args[1].(string)
		scale, _ := args[2].(uint8)
		if commit && f != FaultSilentNoop {
			s.Contracts[contractAddr] = &Contract{Address: contractAddr, Name: name, Symbol: symbol, Scale: scale,
				Bal: map[common.Address]*big.Int{}, Total: new(big.Int)}
			s.Nonces[msg.From()]++
			if e.OnCreate != nil {
				e.OnCreate(ctx, msg.From())
			}
		}
		return &tokentypes.Result{Hash: contractAddr.Hex()}, nil
	}

	to := *msg.To()
	data := msg.Data()
	if len(data) < 4 {
		return nil, fmt.Errorf("evm: short call data")
	}
	if m, err := contracts.BeaconContract.ABI.MethodById(data[:4]); err == nil && m.Name == contracts.MethodUpgradeTo {
		args, err := m.Inputs.Unpack(data[4:])
		if err != nil {
			return nil, err
		}
		if commit {
			s.Implementation = args[0].(common.Address)
		}
		return &tokentypes.Result{Hash: to.Hex()}, nil
	}
	c, ok := s.Contracts[to]
	if !ok {
		return nil, fmt.Errorf("erc20 contract not found")
	}
	method, err := contracts.ERC20TokenContract.ABI.MethodById(data[:4])
	if err != nil {
		return nil, err
	}
	args, err := method.Inputs.Unpack(data[4:])
	if err != nil {
		return nil, err
	}
	res := &tokentypes.Result{Hash: to.Hex()}
	switch method.Name {
	case "name":
		res.Ret, err = method.Outputs.Pack(c.Name)
	case "symbol":
		res.Ret, err = method.Outputs.Pack(c.Symbol)
	case "decimals":
		res.Ret, err = method.Outputs.Pack(c.Scale)
	case "totalSupply":
		res.Ret, err = method.Outputs.Pack(c.Total)
	case "balanceOf":
		res.Ret, err = method.Outputs.Pack(s.BalanceOf(to, args[0].(common.Address)))
	case "mint", "burn":
		f := e.takeFault(commit)
		switch f {
		case FaultError:
			return nil, fmt.Errorf("evm: injected error")
		case FaultRevert:
			return &tokentypes.Result{Hash: to.Hex(), VMError: vm.ErrExecutionReverted.Error()}, nil
		case FaultSilentNoop:
			return res, nil
		}
		who := args[0].(common.Address)
		amt := new(big.Int).Set(args[1].(*big.Int))
		if f == FaultMiscreditPlus {
			amt.Add(amt, big.NewInt(1))
		} else if f == FaultMiscreditMinus {
			amt.Sub(amt, big.NewInt(1))
		}
		if !commit {
			return res, nil
		}
		bal := s.BalanceOf(to, who)
		if method.Name == "mint" {
			c.Bal[who] = bal.Add(bal, amt)
			c.Total = new(big.Int).Add(c.Total, amt)
		} else {
			if bal.Cmp(amt) < 0 {
				return &tokentypes.Result{Hash: to.Hex(), VMError: vm.ErrExecutionReverted.Error()}, nil
			}
			c.Bal[who] = bal.Sub(bal, amt)
			c.Total = new(big.Int).Sub(c.Total, amt)
		}
	default:
		return nil, fmt.Errorf("unknown method %s", method.Name)
	}
	if err != nil {
		return nil, err
	}
	return res, nil
}

// ForeignSwapToNativeLog is a log with the shape of the SwapToNative event, emitted by a contract the token module
// knows nothing about (any contract can declare such an event): the hook must not act on it.
func ForeignSwapToNativeLog(contract, from common.Address, to string, amount *big.Int) *ethtypes.Log {
	ev := contracts.ERC20TokenContract.ABI.Events[contracts.EventSwapToNative]
	data, err := ev.Inputs.Pack(from, to, amount)
	if err != nil {
		panic(err)
	}
	return &ethtypes.Log{Address: contract, Topics: []common.Hash{ev.ID}, Data: data}
}

// SwapToNativeReceipt performs the user-side `swapToNative(to, amount)` of the ERC20 contract: it burns
// amount from `from` and returns the receipt whose log the token module's PostTxProcessing hook consumes.
// ok=false when the holder lacks the balance (the EVM tx itself would revert, no hook call).
func (s *State) SwapToNativeReceipt(contract, from common.Address, to string, amount *big.Int) (*ethtypes.Receipt, bool) {
	c, found := s.Contracts[contract]
	if !found {
		return nil, false
	}
	bal := s.BalanceOf(contract, from)
	if bal.Cmp(amount) < 0 {
		return nil, false
	}
	c.Bal[from] = bal.Sub(bal, amount)
	c.Total = new(big.Int).Sub(c.Total, amount)
	ev := contracts.ERC20TokenContract.ABI.Events[contracts.EventSwapToNative]
	data, err := ev.Inputs.Pack(from, to, amount)
	if err != nil {
		panic(err)
	}
	return &ethtypes.Receipt{Logs: []*ethtypes.Log{{Address: contract, Topics: []common.Hash{ev.ID}, Data: data}}}, true
}
