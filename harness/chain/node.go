package chain

import (
	"encoding/json"
	"fmt"
	"math/rand"
	"time"

	abci "github.com/cometbft/cometbft/abci/types"
	cmtproto "github.com/cometbft/cometbft/proto/tendermint/types"
	cmttypes "github.com/cometbft/cometbft/types"
	dbm "github.com/cosmos/cosmos-db"
	servertypes "github.com/cosmos/cosmos-sdk/server/types"
	simtestutil "github.com/cosmos/cosmos-sdk/testutil/sims"
	sdk "github.com/cosmos/cosmos-sdk/types"
	"github.com/ethereum/go-ethereum/common"

	"mods.irisnet.org/simapp"

	"verifharness/evm"
)

// ConsensusParams used by the A-driver: no block gas limit so that generated txs are never refused for gas.
var ConsensusParams = &cmtproto.ConsensusParams{
	Block:     &cmtproto.BlockParams{MaxBytes: 22020096, MaxGas: -1},
	Evidence:  &cmtproto.EvidenceParams{MaxAgeNumBlocks: 302400, MaxAgeDuration: 504 * time.Hour, MaxBytes: 10000},
	Validator: &cmtproto.ValidatorParams{PubKeyTypes: []string{cmttypes.ABCIPubKeyTypeEd25519}},
}

// Node is the ABCI-level driver: a SimApp on a DB, driven by InitChain / FinalizeBlock / Commit with signed
// transactions, restartable, exportable.
type Node struct {
	App    *simapp.SimApp
	K      Keepers
	EVM    *evm.EVM
	DB     dbm.DB
	Users  []User
	Opts   Options
	Height int64 // last committed height (InitialHeight-1 after InitChain)
	Time   time.Time
	txN    int64
	// committed is false until the first Commit: the genesis state then only exists in the finalize-block state.
	committed bool
}

// NewNode builds an app over a fresh MemDB and runs InitChain. genesis nil = the universe genesis of
// BuildGenesis(o); otherwise the given app state bytes (import). initialHeight >= 1.
func NewNode(o Options, genesis []byte, initialHeight int64) (n *Node, err error) {
	if o.NUsers == 0 {
		o.NUsers = 6
	}
	if o.GenesisTime.IsZero() {
		o.GenesisTime = GenesisTimeDefault
	}
	if initialHeight < 1 {
		initialHeight = 1
	}
	n = &Node{EVM: evm.New(), DB: dbm.NewMemDB(), Users: MakeUsers(o.NUsers), Opts: o}
	n.build()
	if genesis == nil {
		gs := BuildGenesis(n.App, n.Users, o)
		if genesis, err = json.MarshalIndent(gs, "", " "); err != nil {
			return nil, err
		}
	}
	defer func() {
		if p := recover(); p != nil {
			err = fmt.Errorf("InitChain panicked: %v", p)
		}
	}()
	if _, err = n.App.InitChain(&abci.RequestInitChain{
		ChainId: ChainID, Time: o.GenesisTime, Validators: []abci.ValidatorUpdate{},
		ConsensusParams: ConsensusParams, AppStateBytes: genesis, InitialHeight: initialHeight,
	}); err != nil {
		return nil, err
	}
	n.Height = initialHeight - 1
	n.Time = o.GenesisTime
	return n, nil
}

func (n *Node) build() {
	n.K = Keepers{}
	n.App = NewApp(n.DB, n.EVM, &n.K, n.Opts.SkipCrisis)
	n.EVM.OnCreate = func(ctx sdk.Context, from common.Address) {
		if acc := n.App.AccountKeeper.GetAccount(ctx, sdk.AccAddress(from.Bytes())); acc != nil {
			_ = acc.SetSequence(acc.GetSequence() + 1)
			n.App.AccountKeeper.SetAccount(ctx, acc)
		}
	}
}

// Restart throws the application object away and builds a new one over the same DB (what a node restart does).
// Only legal between blocks, after at least one Commit.
func (n *Node) Restart() {
	n.build()
}

// Ctx returns a read context on the last committed state.
func (n *Node) Ctx() sdk.Context {
	if !n.committed {
		return n.App.BaseApp.NewContext(false).WithBlockHeight(n.Height).WithBlockTime(n.Time).WithChainID(ChainID)
	}
	return n.App.BaseApp.NewUncachedContext(false, cmtproto.Header{Height: n.Height, Time: n.Time, ChainID: ChainID}).
		WithBlockHeight(n.Height).WithBlockTime(n.Time)
}

// AccountInfo reads number and sequence of an address from committed state.
func (n *Node) AccountInfo(addr sdk.AccAddress) (num, seq uint64, ok bool) {
	acc := n.App.AccountKeeper.GetAccount(n.Ctx(), addr)
	if acc == nil {
		return 0, 0, false
	}
	return acc.GetAccountNumber(), acc.GetSequence(), true
}

// Tx is an unsigned transaction of one user.
type Tx struct {
	User int
	Msgs []sdk.Msg
}

// SignTxs signs the block's transactions; sequences are read from committed state and advanced locally per
// sender inside the block.
func (n *Node) SignTxs(txs []Tx) ([][]byte, error) {
	seqs := map[int]uint64{}
	nums := map[int]uint64{}
	var out [][]byte
	for _, tx := range txs {
		u := n.Users[tx.User]
		if _, seen := seqs[tx.User]; !seen {
			num, seq, ok := n.AccountInfo(u.Addr)
			if !ok {
				return nil, fmt.Errorf("no account for %s", u.Name)
			}
			nums[tx.User], seqs[tx.User] = num, seq
		}
		n.txN++
		stx, err := simtestutil.GenSignedMockTx(rand.New(rand.NewSource(n.txN)), n.App.TxConfig(), tx.Msgs, sdk.Coins{},
			100_000_000, ChainID, []uint64{nums[tx.User]}, []uint64{seqs[tx.User]}, u.Priv)
		if err != nil {
			return nil, err
		}
		bz, err := n.App.TxConfig().TxEncoder()(stx)
		if err != nil {
			return nil, err
		}
		out = append(out, bz)
		seqs[tx.User]++
	}
	return out, nil
}

// Block runs FinalizeBlock(height+1, time+dt, txs) and Commit.
func (n *Node) Block(dt time.Duration, txs [][]byte) (resp *abci.ResponseFinalizeBlock, err error) {
	defer func() {
		if p := recover(); p != nil {
			err = fmt.Errorf("FinalizeBlock/Commit panicked: %v", p)
		}
	}()
	h := n.Height + 1
	t := n.Time.Add(dt)
	resp, err = n.App.FinalizeBlock(&abci.RequestFinalizeBlock{Height: h, Time: t, Txs: txs})
	if err != nil {
		return nil, err
	}
	if _, err = n.App.Commit(); err != nil {
		return nil, err
	}
	n.Height, n.Time = h, t
	n.committed = true
	return resp, nil
}

// Export calls the application's genesis export (as-is: forZeroHeight=false).
func (n *Node) Export(forZeroHeight bool) (ex servertypes.ExportedApp, err error) {
	defer func() {
		if p := recover(); p != nil {
			err = fmt.Errorf("export panicked: %v", p)
		}
	}()
	return n.App.ExportAppStateAndValidators(forZeroHeight, nil, nil)
}

// CheckCtx returns the check-state context the export functions read from; writes made through it (the
// modules' PrepForZeroHeightGenesis) are seen by a following Export but never committed.
func (n *Node) CheckCtx() sdk.Context {
	return n.App.NewContextLegacy(true, cmtproto.Header{Height: n.Height, Time: n.Time, ChainID: ChainID})
}

// CopyOffChain copies what lives outside the application store from src: the EVM state (a deep copy) and the
// transaction signing counter, so that the same unsigned transactions yield the same bytes on both nodes.
func (n *Node) CopyOffChain(src *Node) {
	n.EVM.Use(src.EVM.Cur().Clone())
	n.txN = src.txN
}

// StoreHashes of committed state.
func (n *Node) StoreHashes() map[string]string { return DumpStores(n.App, n.Ctx()) }
