// Package chain holds the two drivers the properties run on: the keeper-level, cache-branched
// K-driver (Env/Case) and the ABCI-level A-driver (Node, in node.go).
package chain

import (
	"crypto/sha256"
	"encoding/binary"
	"encoding/json"
	"fmt"
	"github.com/cosmos/cosmos-sdk/client"
	"math/big"
	"sort"
	"strings"
	"time"

	"cosmossdk.io/core/appmodule"
	"cosmossdk.io/log"
	sdkmath "cosmossdk.io/math"
	storetypes "cosmossdk.io/store/types"
	abci "github.com/cometbft/cometbft/abci/types"
	tmtypes "github.com/cometbft/cometbft/types"
	dbm "github.com/cosmos/cosmos-db"
	"github.com/cosmos/cosmos-sdk/baseapp"
	"github.com/cosmos/cosmos-sdk/client/flags"
	"github.com/cosmos/cosmos-sdk/codec"
	codectypes "github.com/cosmos/cosmos-sdk/codec/types"
	cryptocodec "github.com/cosmos/cosmos-sdk/crypto/codec"
	"github.com/cosmos/cosmos-sdk/crypto/keys/ed25519"
	"github.com/cosmos/cosmos-sdk/crypto/keys/secp256k1"
	"github.com/cosmos/cosmos-sdk/server"
	simtestutil "github.com/cosmos/cosmos-sdk/testutil/sims"
	sdk "github.com/cosmos/cosmos-sdk/types"
	authtypes "github.com/cosmos/cosmos-sdk/x/auth/types"
	banktypes "github.com/cosmos/cosmos-sdk/x/bank/types"
	distrtypes "github.com/cosmos/cosmos-sdk/x/distribution/types"
	govtypes "github.com/cosmos/cosmos-sdk/x/gov/types"
	minttypes "github.com/cosmos/cosmos-sdk/x/mint/types"
	stakingtypes "github.com/cosmos/cosmos-sdk/x/staking/types"

	"mods.irisnet.org/e2e"
	coinswapkeeper "mods.irisnet.org/modules/coinswap/keeper"
	coinswaptypes "mods.irisnet.org/modules/coinswap/types"
	farmkeeper "mods.irisnet.org/modules/farm/keeper"
	farmtypes "mods.irisnet.org/modules/farm/types"
	htlckeeper "mods.irisnet.org/modules/htlc/keeper"
	htlctypes "mods.irisnet.org/modules/htlc/types"
	mtkeeper "mods.irisnet.org/modules/mt/keeper"
	mttypes "mods.irisnet.org/modules/mt/types"
	nftkeeper "mods.irisnet.org/modules/nft/keeper"
	nfttypes "mods.irisnet.org/modules/nft/types"
	oraclekeeper "mods.irisnet.org/modules/oracle/keeper"
	oracletypes "mods.irisnet.org/modules/oracle/types"
	randomkeeper "mods.irisnet.org/modules/random/keeper"
	randomtypes "mods.irisnet.org/modules/random/types"
	recordkeeper "mods.irisnet.org/modules/record/keeper"
	recordtypes "mods.irisnet.org/modules/record/types"
	servicekeeper "mods.irisnet.org/modules/service/keeper"
	servicetypes "mods.irisnet.org/modules/service/types"
	tokenkeeper "mods.irisnet.org/modules/token/keeper"
	tokentypes "mods.irisnet.org/modules/token/types"
	"mods.irisnet.org/simapp"

	"github.com/ethereum/go-ethereum/common"

	"verifharness/evm"
)

// ChainID used by both drivers.
const ChainID = "verif-1"

// IrismodModules lists the ten modules under test in their configured blocker order.
var IrismodModules = []string{
	coinswaptypes.ModuleName, farmtypes.ModuleName, htlctypes.ModuleName, mttypes.ModuleName, nfttypes.ModuleName,
	servicetypes.ModuleName, oracletypes.ModuleName, randomtypes.ModuleName, recordtypes.ModuleName, tokentypes.ModuleName,
}

// User is a deterministic account of the universe.
type User struct {
	Name string
	Priv *secp256k1.PrivKey
	Addr sdk.AccAddress
}

// Keepers gives direct access to the irismod keepers of an app.
type Keepers struct {
	Coinswap coinswapkeeper.Keeper
	Farm     farmkeeper.Keeper
	HTLC     htlckeeper.Keeper
	MT       mtkeeper.Keeper
	NFT      nftkeeper.Keeper
	Oracle   oraclekeeper.Keeper
	Random   randomkeeper.Keeper
	Record   recordkeeper.Keeper
	Service  servicekeeper.Keeper
	Token    tokenkeeper.Keeper
}

// Options for building an application.
type Options struct {
	// NUsers is the number of rich user accounts U0.. (default 6); the last two are poor unless AllRich.
	NUsers  int
	AllRich bool
	// WhaleBits: rich users hold 2^WhaleBits of every funded denom (0 = 200).
	WhaleBits uint
	// ExtraDenoms get whale balances for every rich user besides the default set.
	ExtraDenoms []string
	// GenesisMod edits the genesis map before InitChain (module name -> json).
	GenesisMod func(app *simapp.SimApp, gs simapp.GenesisState)
	// GenesisTime of InitChain; zero means the fixed default.
	GenesisTime time.Time
	// SkipCrisis starts the app with x-crisis-skip-assert-invariants.
	SkipCrisis bool
	// DB to build on (nil = new MemDB).
	DB dbm.DB
}

// DefaultDenoms funded at genesis.
var DefaultDenoms = []string{"stake", "btc", "eth", "usdt", "point"}

// Whale is the genesis balance of rich users for every funded denom: 2^200.
var Whale = sdkmath.NewIntFromBigInt(new(big.Int).Lsh(big.NewInt(1), 200))

// PoorAmount is the genesis balance (stake only) of the poor users.
var PoorAmount = sdkmath.NewInt(1000)

// GenesisTimeDefault is a fixed timestamp (never the wall clock).
var GenesisTimeDefault = time.Date(2024, 1, 1, 0, 0, 0, 0, time.UTC)

// Env is one application plus its universe.
type Env struct {
	App   *simapp.SimApp
	K     Keepers
	EVM   *evm.EVM
	Users []User
	Gov   sdk.AccAddress // authority of every module
	DB    dbm.DB
	Opts  Options

	base sdk.Context
}

// MakeUsers returns n deterministic users.
func MakeUsers(n int) []User {
	us := make([]User, n)
	for i := range us {
		priv := secp256k1.GenPrivKeyFromSecret([]byte(fmt.Sprintf("verif-user-%d", i)))
		us[i] = User{Name: fmt.Sprintf("U%d", i), Priv: priv, Addr: sdk.AccAddress(priv.PubKey().Address())}
	}
	return us
}

// NewApp constructs a SimApp (no InitChain) over db with all ten modules and the harness EVM.
func NewApp(db dbm.DB, ev *evm.EVM, k *Keepers, skipCrisis bool) *simapp.SimApp {
	appOptions := make(simtestutil.AppOptionsMap, 0)
	appOptions[flags.FlagHome] = "/nonexistent-verif-home"
	appOptions[server.FlagInvCheckPeriod] = uint(0)
	if skipCrisis {
		appOptions["x-crisis-skip-assert-invariants"] = true
	}
	opts := simapp.DepinjectOptions{
		Config:    e2e.AppConfig,
		Providers: []interface{}{tokentypes.EVMKeeper(ev), tokenkeeper.ProvideMockICS20()},
		Consumers: []interface{}{&k.Coinswap, &k.Farm, &k.HTLC, &k.MT, &k.NFT, &k.Oracle, &k.Random, &k.Record, &k.Service, &k.Token},
	}
	return simapp.NewSimApp(log.NewNopLogger(), db, nil, true, opts, appOptions, baseapp.SetChainID(ChainID))
}

// BuildGenesis produces the genesis state map for the universe.
func BuildGenesis(app *simapp.SimApp, users []User, o Options) simapp.GenesisState {
	gs := app.DefaultGenesis()
	cdc := app.AppCodec()

	genAccs := make([]authtypes.GenesisAccount, 0, len(users))
	balances := make([]banktypes.Balance, 0, len(users)+1)
	total := sdk.NewCoins()
	denoms := append(append([]string{}, DefaultDenoms...), o.ExtraDenoms...)
	for i, u := range users {
		genAccs = append(genAccs, authtypes.NewBaseAccount(u.Addr, u.Priv.PubKey(), uint64(i), 0))
		var coins sdk.Coins
		if !o.AllRich && len(users) >= 4 && i >= len(users)-2 {
			coins = sdk.NewCoins(sdk.NewCoin("stake", PoorAmount))
		} else {
			whale := Whale
			if o.WhaleBits != 0 {
				whale = sdkmath.NewIntFromBigInt(new(big.Int).Lsh(big.NewInt(1), o.WhaleBits))
			}
			for _, d := range denoms {
				coins = coins.Add(sdk.NewCoin(d, whale))
			}
		}
		balances = append(balances, banktypes.Balance{Address: u.Addr.String(), Coins: coins})
		total = total.Add(coins...)
	}
	gs[authtypes.ModuleName] = cdc.MustMarshalJSON(authtypes.NewGenesisState(authtypes.DefaultParams(), genAccs))

	// one bonded validator, as simapp/test_helpers.go does
	valPriv := ed25519.GenPrivKeyFromSecret([]byte("verif-validator"))
	tmPub, err := cryptocodec.ToCmtPubKeyInterface(valPriv.PubKey())
	if err != nil {
		panic(err)
	}
	val := tmtypes.NewValidator(tmPub, 1)
	pk, err := cryptocodec.FromCmtPubKeyInterface(val.PubKey)
	if err != nil {
		panic(err)
	}
	pkAny, err := codectypes.NewAnyWithValue(pk)
	if err != nil {
		panic(err)
	}
	bondAmt := sdk.DefaultPowerReduction
	validator := stakingtypes.Validator{
		OperatorAddress: sdk.ValAddress(val.Address).String(), ConsensusPubkey: pkAny, Status: stakingtypes.Bonded,
		Tokens: bondAmt, DelegatorShares: sdkmath.LegacyOneDec(), Description: stakingtypes.Description{},
		UnbondingTime:     time.Unix(0, 0).UTC(),
		Commission:        stakingtypes.NewCommission(sdkmath.LegacyZeroDec(), sdkmath.LegacyZeroDec(), sdkmath.LegacyZeroDec()),
		MinSelfDelegation: sdkmath.ZeroInt(),
	}
	deleg := stakingtypes.NewDelegation(users[0].Addr.String(), sdk.ValAddress(val.Address).String(), sdkmath.LegacyOneDec())
	gs[stakingtypes.ModuleName] = cdc.MustMarshalJSON(stakingtypes.NewGenesisState(stakingtypes.DefaultParams(),
		[]stakingtypes.Validator{validator}, []stakingtypes.Delegation{deleg}))
	total = total.Add(sdk.NewCoin(sdk.DefaultBondDenom, bondAmt))
	balances = append(balances, banktypes.Balance{
		Address: authtypes.NewModuleAddress(stakingtypes.BondedPoolName).String(),
		Coins:   sdk.Coins{sdk.NewCoin(sdk.DefaultBondDenom, bondAmt)},
	})
	gs[banktypes.ModuleName] = cdc.MustMarshalJSON(banktypes.NewGenesisState(banktypes.DefaultGenesisState().Params,
		balances, total, []banktypes.Metadata{}, []banktypes.SendEnabled{}))
	// htlc's default genesis carries time.Now() of process start (types.DefaultPreviousBlockTime); pin it so
	// that the genesis is a pure function of the options (a real chain fixes it in genesis.json).
	var hg htlctypes.GenesisState
	cdc.MustUnmarshalJSON(gs[htlctypes.ModuleName], &hg)
	hg.PreviousBlockTime = o.GenesisTime
	if hg.PreviousBlockTime.IsZero() {
		hg.PreviousBlockTime = GenesisTimeDefault
	}
	gs[htlctypes.ModuleName] = cdc.MustMarshalJSON(&hg)
	if o.GenesisMod != nil {
		o.GenesisMod(app, gs)
	}
	return gs
}

// NewEnv builds an app, initialises the chain with the universe and returns the K-driver environment.
func NewEnv(o Options) *Env {
	if o.NUsers == 0 {
		o.NUsers = 6
	}
	if o.GenesisTime.IsZero() {
		o.GenesisTime = GenesisTimeDefault
	}
	db := o.DB
	if db == nil {
		db = dbm.NewMemDB()
	}
	e := &Env{EVM: evm.New(), Users: MakeUsers(o.NUsers), DB: db, Opts: o}
	e.App = NewApp(db, e.EVM, &e.K, o.SkipCrisis)
	e.Gov = authtypes.NewModuleAddress(govtypes.ModuleName)
	e.EVM.OnCreate = func(ctx sdk.Context, from common.Address) {
		if acc := e.App.AccountKeeper.GetAccount(ctx, sdk.AccAddress(from.Bytes())); acc != nil {
			_ = acc.SetSequence(acc.GetSequence() + 1)
			e.App.AccountKeeper.SetAccount(ctx, acc)
		}
	}
	gs := BuildGenesis(e.App, e.Users, o)
	bz, err := json.MarshalIndent(gs, "", " ")
	if err != nil {
		panic(err)
	}
	if _, err := e.App.InitChain(&abci.RequestInitChain{
		ChainId: ChainID, Time: o.GenesisTime, Validators: []abci.ValidatorUpdate{},
		ConsensusParams: simtestutil.DefaultConsensusParams, AppStateBytes: bz, InitialHeight: 1,
	}); err != nil {
		panic(err)
	}
	// messages and block hooks run in the mode baseapp gives them inside FinalizeBlock
	e.base = e.App.BaseApp.NewContext(false).WithBlockHeight(1).WithBlockTime(o.GenesisTime).
		WithChainID(ChainID).WithExecMode(sdk.ExecModeFinalize)
	// Block 1 is "in progress" for every case: on a chain its begin blockers have run before the first transaction
	// (service, for one, only sets up its per-block context counter there).
	first := &Case{E: e, Ctx: e.base.WithEventManager(sdk.NewEventManager()), EVMState: evm.NewState(), IrismodOnly: true}
	if r := first.BeginBlock(); r.Outcome != OK {
		panic(fmt.Sprintf("begin blockers of block 1 failed: %v", r))
	}
	return e
}

// ModuleAddr returns the address of a module account.
func ModuleAddr(name string) sdk.AccAddress { return authtypes.NewModuleAddress(name) }

// BlockedAddrs are the blocked recipients of the app config.
func BlockedAddrs() []sdk.AccAddress {
	return []sdk.AccAddress{
		ModuleAddr(authtypes.FeeCollectorName), ModuleAddr(distrtypes.ModuleName), ModuleAddr(minttypes.ModuleName),
		ModuleAddr(stakingtypes.BondedPoolName), ModuleAddr(stakingtypes.NotBondedPoolName),
	}
}

// ---------------------------------------------------------------------------------------------
// Case: one isolated execution on a branch of the base state

// Outcome class of a delivered message or block hook.
type Outcome int

const (
	OK Outcome = iota
	Rejected
	Overflow
	Panicked
)

func (o Outcome) String() string { return [...]string{"ok", "rejected", "overflow", "panicked"}[o] }

// Result of Deliver.
type Result struct {
	Outcome Outcome
	Err     error
	Panic   interface{}
	Resp    sdk.Msg // typed response (nil unless OK)
	Events  []abci.Event
	TxHash  string // upper-case hex of sha256(tx bytes) used for this message
}

func (r Result) String() string {
	switch r.Outcome {
	case OK:
		return "ok"
	case Rejected:
		return "rejected: " + r.Err.Error()
	default:
		return fmt.Sprintf("%s: %v", r.Outcome, r.Panic)
	}
}

// Case is a branch of the base state with its own clock.
type Case struct {
	E         *Env
	Ctx       sdk.Context
	EVMState  *evm.State
	txCounter uint64
	// IrismodOnly selects the blockers run by Begin/EndBlock.
	IrismodOnly bool
	// GenesisEdit, if set, rewrites the exported genesis of the next Reimport the way an operator editing the file by
	// hand might (another spelling of the same state). The edited file is imported only if the module's own validation
	// and import accept it; otherwise the export is imported as it is. Counted in EditedImports / EditedRefused.
	GenesisEdit                  func(module string, exported json.RawMessage) json.RawMessage
	EditedImports, EditedRefused int
}

// NewCase starts an isolated case at height 1 (the block after InitChain is "in progress").
func (e *Env) NewCase() *Case {
	ctx, _ := e.base.CacheContext()
	ctx = ctx.WithEventManager(sdk.NewEventManager()).WithGasMeter(storetypes.NewInfiniteGasMeter()).
		WithBlockGasMeter(storetypes.NewInfiniteGasMeter())
	return &Case{E: e, Ctx: ctx, EVMState: evm.NewState(), IrismodOnly: true}
}

// Branch returns an independent copy of the case (state, clock, EVM); the parent is not affected by it.
func (c *Case) Branch() *Case {
	ctx, _ := c.Ctx.CacheContext()
	return &Case{E: c.E, Ctx: ctx, EVMState: c.EVMState.Clone(), txCounter: c.txCounter + 1<<32, IrismodOnly: c.IrismodOnly}
}

func (c *Case) Height() int64   { return c.Ctx.BlockHeight() }
func (c *Case) Time() time.Time { return c.Ctx.BlockTime() }

func isOverflow(p interface{}) bool {
	s := fmt.Sprint(p)
	if strings.Contains(s, "Int64()") || strings.Contains(s, "Uint64()") {
		// a conversion of a number that does exist on chain (2^63 is an ordinary amount of an 18-decimals coin) to a
		// machine integer: not the refusal of an unrepresentable number but a defect of the caller
		return false
	}
	return strings.Contains(s, "Int overflow") || strings.Contains(s, "integer overflow") || strings.Contains(s, "overflow") && strings.Contains(s, "Int") ||
		strings.Contains(s, "decimal out of range") || strings.Contains(s, "out of bound")
}

// NextTxBytes returns the unique tx bytes the next Deliver will use.
func (c *Case) nextTxBytes() []byte {
	c.txCounter++
	var b [16]byte
	binary.BigEndian.PutUint64(b[:8], 0x7665726966)
	binary.BigEndian.PutUint64(b[8:], c.txCounter)
	// transactions of equal and of different length both occur (two in three share a length with their successor)
	return append(b[:], make([]byte, (c.txCounter/2)%3)...)
}

// NewTxBytes hands out fresh unique tx bytes; passing the same bytes to several DeliverTx calls models the
// messages of one transaction signed by several accounts (they share the transaction hash).
func (c *Case) NewTxBytes() []byte { return c.nextTxBytes() }

// Deliver routes one message as baseapp would inside a transaction of its own.
func (c *Case) Deliver(msg sdk.Msg) Result { return c.DeliverTx(nil, msg)[0] }

// DeliverTx delivers several messages atomically under one tx hash (txBytes nil = unique bytes).
// If any message fails the whole branch is dropped; results up to the failing one are returned.
func (c *Case) DeliverTx(txBytes []byte, msgs ...sdk.Msg) (results []Result) {
	if txBytes == nil {
		txBytes = c.nextTxBytes()
	}
	sum := sha256.Sum256(txBytes)
	hash := strings.ToUpper(fmt.Sprintf("%x", sum[:]))
	c.E.EVM.Use(c.EVMState)
	snap := c.EVMState.Clone()
	mctx, write := c.Ctx.CacheContext()
	mctx = mctx.WithTxBytes(txBytes).WithEventManager(sdk.NewEventManager()).WithGasMeter(storetypes.NewInfiniteGasMeter())
	fail := func() {
		c.EVMState = snap
		c.E.EVM.Use(c.EVMState)
	}
	for _, msg := range msgs {
		r := Result{TxHash: hash}
		func() {
			defer func() {
				if p := recover(); p != nil {
					r.Panic = p
					if isOverflow(p) {
						r.Outcome = Overflow
					} else {
						r.Outcome = Panicked
					}
				}
			}()
			if vb, ok := msg.(sdk.HasValidateBasic); ok {
				if err := vb.ValidateBasic(); err != nil {
					r.Outcome, r.Err = Rejected, err
					return
				}
			}
			h := c.E.App.MsgServiceRouter().Handler(msg)
			if h == nil {
				r.Outcome, r.Err = Rejected, fmt.Errorf("no handler for %T", msg)
				return
			}
			ectx := mctx.WithEventManager(sdk.NewEventManager())
			res, err := h(ectx, msg)
			if err != nil {
				r.Outcome, r.Err = Rejected, err
				return
			}
			r.Events = res.Events
			if len(res.MsgResponses) > 0 {
				if m, ok := res.MsgResponses[0].GetCachedValue().(sdk.Msg); ok {
					r.Resp = m
				}
			}
		}()
		results = append(results, r)
		if r.Outcome != OK {
			fail()
			return results
		}
	}
	write()
	return results
}

// HookResult of a begin/end block run.
type HookResult struct {
	Outcome Outcome
	Err     error
	Panic   interface{}
	Events  []abci.Event
}

func (h HookResult) String() string {
	if h.Outcome == OK {
		return "ok"
	}
	return fmt.Sprintf("%s err=%v panic=%v", h.Outcome, h.Err, h.Panic)
}

func (c *Case) runHooks(begin bool) (r HookResult) {
	c.E.EVM.Use(c.EVMState)
	em := sdk.NewEventManager()
	ctx := c.Ctx.WithEventManager(em)
	defer func() {
		if p := recover(); p != nil {
			r.Panic = p
			if isOverflow(p) {
				r.Outcome = Overflow
			} else {
				r.Outcome = Panicked
			}
		}
		r.Events = em.ABCIEvents()
	}()
	mm := c.E.App.ModuleManager
	if !c.IrismodOnly {
		var err error
		if begin {
			_, err = mm.BeginBlock(ctx)
		} else {
			_, err = mm.EndBlock(ctx)
		}
		if err != nil {
			r.Outcome, r.Err = Rejected, err
		}
		return r
	}
	for _, name := range IrismodModules {
		m := mm.Modules[name]
		if begin {
			if bb, ok := m.(appmodule.HasBeginBlocker); ok {
				if err := bb.BeginBlock(ctx); err != nil {
					r.Outcome, r.Err = Rejected, fmt.Errorf("%s: %w", name, err)
					return r
				}
			}
		} else {
			if eb, ok := m.(appmodule.HasEndBlocker); ok {
				if err := eb.EndBlock(ctx); err != nil {
					r.Outcome, r.Err = Rejected, fmt.Errorf("%s: %w", name, err)
					return r
				}
			}
		}
	}
	return r
}

// BeginBlock runs the begin blockers at the current height.
func (c *Case) BeginBlock() HookResult { return c.runHooks(true) }

// EndBlock runs the end blockers at the current height.
func (c *Case) EndBlock() HookResult { return c.runHooks(false) }

// Advance moves to the next consecutive height with block time +dt and the given app hash as
// "previous block's app hash" (nil keeps a deterministic hash derived from the height).
func (c *Case) Advance(dt time.Duration, appHash []byte) {
	h := c.Ctx.BlockHeight() + 1
	if appHash == nil {
		s := sha256.Sum256([]byte(fmt.Sprintf("apphash-%d", h)))
		appHash = s[:]
	}
	hdr := c.Ctx.BlockHeader()
	hdr.Height = h
	hdr.Time = c.Ctx.BlockTime().Add(dt)
	hdr.AppHash = appHash
	c.Ctx = c.Ctx.WithBlockHeader(hdr).WithBlockHeight(h).WithBlockTime(hdr.Time)
}

// NextBlock = EndBlock(h); Advance; BeginBlock(h+1). Returns both hook results.
func (c *Case) NextBlock(dt time.Duration, appHash []byte) (end, begin HookResult) {
	end = c.EndBlock()
	c.Advance(dt, appHash)
	begin = c.BeginBlock()
	return
}

// ---------------------------------------------------------------------------------------------
// Observation

// Balance of addr in denom.
func (c *Case) Balance(addr sdk.AccAddress, denom string) sdkmath.Int {
	return c.E.App.BankKeeper.GetBalance(c.Ctx, addr, denom).Amount
}

// Supply of denom.
func (c *Case) Supply(denom string) sdkmath.Int {
	return c.E.App.BankKeeper.GetSupply(c.Ctx, denom).Amount
}

// Sheet is a full balance sheet: every account's balances plus every supply.
type Sheet struct {
	Bal map[string]*big.Int // "addr/denom"
	Sup map[string]*big.Int
}

// Snapshot reads every balance and supply known to bank.
func (c *Case) Snapshot() Sheet {
	s := Sheet{Bal: map[string]*big.Int{}, Sup: map[string]*big.Int{}}
	c.E.App.BankKeeper.IterateAllBalances(c.Ctx, func(a sdk.AccAddress, coin sdk.Coin) bool {
		s.Bal[a.String()+"/"+coin.Denom] = coin.Amount.BigInt()
		return false
	})
	c.E.App.BankKeeper.IterateTotalSupply(c.Ctx, func(coin sdk.Coin) bool {
		s.Sup[coin.Denom] = coin.Amount.BigInt()
		return false
	})
	return s
}

// Delta is after-before as maps with only non-zero entries.
type Delta struct {
	Bal map[string]*big.Int
	Sup map[string]*big.Int
}

func diffMap(a, b map[string]*big.Int) map[string]*big.Int {
	out := map[string]*big.Int{}
	for k, v := range b {
		old, ok := a[k]
		if !ok {
			old = new(big.Int)
		}
		if d := new(big.Int).Sub(v, old); d.Sign() != 0 {
			out[k] = d
		}
	}
	for k, v := range a {
		if _, ok := b[k]; !ok && v.Sign() != 0 {
			out[k] = new(big.Int).Neg(v)
		}
	}
	return out
}

// Diff computes after-before.
func Diff(before, after Sheet) Delta {
	return Delta{Bal: diffMap(before.Bal, after.Bal), Sup: diffMap(before.Sup, after.Sup)}
}

// Empty reports whether nothing moved.
func (d Delta) Empty() bool { return len(d.Bal) == 0 && len(d.Sup) == 0 }

func (d Delta) String() string {
	var parts []string
	for k, v := range d.Bal {
		parts = append(parts, fmt.Sprintf("%s:%s", k, v))
	}
	for k, v := range d.Sup {
		parts = append(parts, fmt.Sprintf("supply/%s:%s", k, v))
	}
	sort.Strings(parts)
	return strings.Join(parts, " ")
}

// Expect builds an expected delta.
type Expect struct{ d Delta }

// NewExpect returns an empty expectation.
func NewExpect() *Expect {
	return &Expect{Delta{Bal: map[string]*big.Int{}, Sup: map[string]*big.Int{}}}
}

// Move expects amt of denom to go from -> to.
func (e *Expect) Move(from, to sdk.AccAddress, denom string, amt *big.Int) *Expect {
	e.Add(from, denom, new(big.Int).Neg(amt))
	e.Add(to, denom, amt)
	return e
}

// Add expects addr's balance of denom to change by amt.
func (e *Expect) Add(addr sdk.AccAddress, denom string, amt *big.Int) *Expect {
	k := addr.String() + "/" + denom
	cur, ok := e.d.Bal[k]
	if !ok {
		cur = new(big.Int)
	}
	cur = new(big.Int).Add(cur, amt)
	if cur.Sign() == 0 {
		delete(e.d.Bal, k)
	} else {
		e.d.Bal[k] = cur
	}
	return e
}

// Supply expects supply of denom to change by amt.
func (e *Expect) Supply(denom string, amt *big.Int) *Expect {
	cur, ok := e.d.Sup[denom]
	if !ok {
		cur = new(big.Int)
	}
	cur = new(big.Int).Add(cur, amt)
	if cur.Sign() == 0 {
		delete(e.d.Sup, denom)
	} else {
		e.d.Sup[denom] = cur
	}
	return e
}

// Delta returns the expectation.
func (e *Expect) Delta() Delta { return e.d }

// SameDelta compares two deltas exactly.
func SameDelta(a, b Delta) bool {
	eq := func(x, y map[string]*big.Int) bool {
		if len(x) != len(y) {
			return false
		}
		for k, v := range x {
			w, ok := y[k]
			if !ok || v.Cmp(w) != 0 {
				return false
			}
		}
		return true
	}
	return eq(a.Bal, b.Bal) && eq(a.Sup, b.Sup)
}

// StoreDump returns, per store key name, the SHA-256 over its ordered key/value pairs.
func (c *Case) StoreDump() map[string]string { return DumpStores(c.E.App, c.Ctx) }

// DumpStores hashes every KV store of the app as seen from ctx.
func DumpStores(app *simapp.SimApp, ctx sdk.Context) map[string]string {
	out := map[string]string{}
	for _, k := range app.GetStoreKeys() {
		kv, ok := k.(*storetypes.KVStoreKey)
		if !ok {
			continue
		}
		h := sha256.New()
		it := ctx.KVStore(kv).Iterator(nil, nil)
		n := 0
		for ; it.Valid(); it.Next() {
			var l [8]byte
			binary.BigEndian.PutUint64(l[:], uint64(len(it.Key())))
			h.Write(l[:])
			h.Write(it.Key())
			binary.BigEndian.PutUint64(l[:], uint64(len(it.Value())))
			h.Write(l[:])
			h.Write(it.Value())
			n++
		}
		it.Close()
		out[kv.Name()] = fmt.Sprintf("%d:%x", n, h.Sum(nil))
	}
	return out
}

// RawStore returns all key/value pairs of a module store under a prefix.
func (c *Case) RawStore(storeName string, prefix []byte) (keys, vals [][]byte) {
	var key *storetypes.KVStoreKey
	for _, k := range c.E.App.GetStoreKeys() {
		if kv, ok := k.(*storetypes.KVStoreKey); ok && kv.Name() == storeName {
			key = kv
		}
	}
	if key == nil {
		panic("no store " + storeName)
	}
	it := storetypes.KVStorePrefixIterator(c.Ctx.KVStore(key), prefix)
	defer it.Close()
	for ; it.Valid(); it.Next() {
		keys = append(keys, append([]byte{}, it.Key()...))
		vals = append(vals, append([]byte{}, it.Value()...))
	}
	return
}

// Reimport emulates a restart of one module from its own exported genesis on the case's branch: the module's
// genesis is exported, its store is wiped (all of it, or only the given key prefixes when the module documents
// that the rest is not part of its genesis) and the exported genesis is imported again through the module's
// InitGenesis.  Bank balances and the other modules' stores stay as they are, as they would when every module is
// exported and imported together.  A panic or error of export/import is returned (err != nil, stage says where);
// the exported JSON is returned for reports.
func (c *Case) Reimport(moduleName string, wipePrefixes ...[]byte) (exported json.RawMessage, stage string, err error) {
	var key *storetypes.KVStoreKey
	for _, k := range c.E.App.GetStoreKeys() {
		if kv, ok := k.(*storetypes.KVStoreKey); ok && kv.Name() == moduleName {
			key = kv
		}
	}
	if key == nil {
		panic("no store " + moduleName)
	}
	mod, ok := c.E.App.ModuleManager.Modules[moduleName].(interface {
		InitGenesis(sdk.Context, codec.JSONCodec, json.RawMessage) []abci.ValidatorUpdate
		ExportGenesis(sdk.Context, codec.JSONCodec) json.RawMessage
	})
	if !ok {
		panic("module " + moduleName + " has no genesis methods of the expected shape")
	}
	stage = "export"
	defer func() {
		if p := recover(); p != nil {
			err = fmt.Errorf("%s of module %s panicked: %v", stage, moduleName, p)
		}
	}()
	cdc := c.E.App.AppCodec()
	exported = mod.ExportGenesis(c.Ctx, cdc)
	stage = "wipe"
	st := c.Ctx.KVStore(key)
	if len(wipePrefixes) == 0 {
		wipePrefixes = [][]byte{nil}
	}
	for _, pre := range wipePrefixes {
		var keys [][]byte
		it := storetypes.KVStorePrefixIterator(st, pre)
		for ; it.Valid(); it.Next() {
			keys = append(keys, append([]byte{}, it.Key()...))
		}
		it.Close()
		for _, k := range keys {
			st.Delete(k)
		}
	}
	stage = "import"
	if c.GenesisEdit != nil {
		if alt := c.GenesisEdit(moduleName, exported); alt != nil && string(alt) != string(exported) {
			if c.tryImport(moduleName, alt) {
				c.EditedImports++
				return exported, "", nil
			}
			c.EditedRefused++
		}
	}
	mod.InitGenesis(c.Ctx, cdc, exported)
	return exported, "", nil
}

// tryImport validates and imports a genesis document on a branch and keeps the result only if both succeed.
func (c *Case) tryImport(moduleName string, gen json.RawMessage) (ok bool) {
	mod := c.E.App.ModuleManager.Modules[moduleName]
	cc, write := c.Ctx.CacheContext()
	defer func() {
		if p := recover(); p != nil {
			ok = false
		}
	}()
	if v, has := mod.(interface {
		ValidateGenesis(codec.JSONCodec, client.TxEncodingConfig, json.RawMessage) error
	}); has {
		if err := v.ValidateGenesis(c.E.App.AppCodec(), c.E.App.TxConfig(), gen); err != nil {
			return false
		}
	}
	mod.(interface {
		InitGenesis(sdk.Context, codec.JSONCodec, json.RawMessage) []abci.ValidatorUpdate
	}).InitGenesis(cc, c.E.App.AppCodec(), gen)
	write()
	return true
}

// RawDelete removes one key from a module store of the case's branch: fault injection for states that only a
// genesis import (not a transaction) can produce, e.g. an object whose counterpart in another module is missing.
func (c *Case) RawDelete(storeName string, key []byte) bool {
	for _, k := range c.E.App.GetStoreKeys() {
		if kv, ok := k.(*storetypes.KVStoreKey); ok && kv.Name() == storeName {
			st := c.Ctx.KVStore(kv)
			if !st.Has(key) {
				return false
			}
			st.Delete(key)
			return true
		}
	}
	panic("no store " + storeName)
}

// EventAttrs returns the values of attribute `key` over all events of type `typ`.
func EventAttrs(evs []abci.Event, typ, key string) []string {
	var out []string
	for _, e := range evs {
		if e.Type != typ {
			continue
		}
		for _, a := range e.Attributes {
			if a.Key == key {
				out = append(out, a.Value)
			}
		}
	}
	return out
}
