#!/usr/bin/env python3
"""Confirms a seeded change produced by an independent sub-agent and runs the property's check against it.

  tools/seedeval.py <agent worktree> <name> [--props C05,C06]

Steps (in a fresh scratch worktree of /repo HEAD, removed afterwards):
  1. the demonstration test passes WITHOUT the patch;
  2. the patch applies, the tree builds, the touched modules' own tests pass;
  3. the demonstration FAILS with the patch;
  4. `VERIF_REPO=<scratch> ./check <property>` (quick tier) for the property named in meta.json (and --props).
Everything is recorded in /verif/seeded/<name>/meta.json (patch.diff and the demonstration are copied there).
"""
import json, os, re, shutil, subprocess, sys, time

ROOT = os.path.dirname(os.path.dirname(os.path.abspath(__file__)))
GOENV = dict(os.environ, GOPROXY="off", GOSUMDB="off", GOTOOLCHAIN="local")


def sh(cmd, cwd=None, env=None, timeout=3600):
    p = subprocess.run(cmd, shell=True, cwd=cwd, env=env or GOENV, stdout=subprocess.PIPE, stderr=subprocess.STDOUT, text=True, timeout=timeout)
    return p.returncode, p.stdout


def main():
    src, name = sys.argv[1], sys.argv[2]
    extra = []
    if "--props" in sys.argv:
        extra = sys.argv[sys.argv.index("--props") + 1].split(",")
    tier = "quick"
    if "--tier" in sys.argv:
        tier = sys.argv[sys.argv.index("--tier") + 1]
    out = os.path.join(ROOT, "seeded", name)
    os.makedirs(out, exist_ok=True)
    so = os.path.join(src, "seed_out")
    meta = json.load(open(os.path.join(so, "meta.json")))
    for f in os.listdir(so):
        if os.path.isfile(os.path.join(so, f)):
            shutil.copy(os.path.join(so, f), os.path.join(out, f))
    # where does the demo live in the agent's worktree?
    rc, untracked = sh("git ls-files --others --exclude-standard", cwd=src)
    demos = [l for l in untracked.split("\n") if l.endswith("_test.go") and not l.startswith("seed_out/")]
    # the agent's own patch.diff is authoritative (worktrees share one git stash: a worktree's diff may be contaminated)
    if os.path.exists(os.path.join(so, "patch.diff")):
        shutil.copy(os.path.join(so, "patch.diff"), "/tmp/seedeval-" + name + ".diff")
    else:
        rc, _ = sh("git diff HEAD > /tmp/seedeval-" + name + ".diff", cwd=src)
    patch = open("/tmp/seedeval-" + name + ".diff").read()
    open(os.path.join(out, "patch.diff"), "w").write(patch)
    touched = sorted(set(re.findall(r"^\+\+\+ b/(\S+)", patch, re.M)))
    mods = sorted({"/".join(t.split("/")[:2]) if t.startswith("modules/") else t.split("/")[0] for t in touched})
    wt = f"/tmp/seedval-{name}"
    sh(f"git -C /repo worktree remove --force {wt}")
    rc, o = sh(f"git -C /repo worktree add --detach {wt}")
    log = dict(ran=[], repo_head=sh("git -C /repo rev-parse --short HEAD")[1].strip())
    try:
        for d in demos:
            os.makedirs(os.path.dirname(os.path.join(wt, d)), exist_ok=True)
            shutil.copy(os.path.join(src, d), os.path.join(wt, d))
        demo_pkgs = sorted({os.path.dirname(d) for d in demos})

        def run_demo():
            # the agent's own demonstration command, re-targeted at the validation worktree
            cmd = meta.get("demo_cmd", "").replace(src.rstrip("/"), wt)
            rc, o = sh("export GOPROXY=off GOSUMDB=off GOTOOLCHAIN=local; " + cmd, cwd=wt)
            if "no tests to run" in o and "--- " not in o and rc == 0:
                rc, o = 99, o + "\n(seedeval: the demonstration command ran no test)"
            return [(cmd, rc, o[-1500:])]

        r1 = run_demo()
        log["demo_without_patch"] = [dict(cmd=c, exit=rc) for c, rc, _ in r1]
        ok_without = all(rc == 0 for _, rc, _ in r1) and bool(r1)
        rc, o = sh("git apply /tmp/seedeval-" + name + ".diff", cwd=wt)
        log["patch_applies"] = rc == 0
        tests_ok = True
        log["module_tests"] = []
        for m in mods:
            if not os.path.exists(os.path.join(wt, m, "go.mod")):
                continue
            # the demo is expected to fail: exclude it from the module's own run
            for d in demos:
                if d.startswith(m + "/"):
                    os.rename(os.path.join(wt, d), os.path.join(wt, d) + ".off")
            rc, o = sh("go test -vet=off -count=1 ./...", cwd=os.path.join(wt, m))
            for d in demos:
                if d.startswith(m + "/"):
                    os.rename(os.path.join(wt, d) + ".off", os.path.join(wt, d))
            log["module_tests"].append(dict(module=m, exit=rc, tail=o[-300:] if rc else ""))
            tests_ok = tests_ok and rc == 0
        r2 = run_demo()
        log["demo_with_patch"] = [dict(cmd=c, exit=rc, tail=o[-600:]) for c, rc, o in r2]
        fails_with = any(rc != 0 for _, rc, _ in r2)
        confirmed = ok_without and log["patch_applies"] and tests_ok and fails_with
        log["confirmed"] = confirmed
        # remove demos before running the checks (they are not part of the seeded change)
        for d in demos:
            os.remove(os.path.join(wt, d))
        checks = []
        props = [meta.get("property")] + [p for p in extra if p != meta.get("property")]
        for pid in props:
            t0 = time.time()
            env = dict(os.environ, VERIF_REPO=wt)
            p = subprocess.run([os.path.join(ROOT, "check"), pid, "--tier", tier], cwd=ROOT, env=env, stdout=subprocess.PIPE, stderr=subprocess.STDOUT, text=True)
            sigs = sorted(set(re.findall(r"\b(C\d\d/[A-Za-z0-9_./-]+)", p.stdout)))
            checks.append(dict(property=pid, tier=tier, exit=p.returncode, caught=p.returncode == 1, signatures=sigs[:5], wall_s=round(time.time() - t0, 1)))
            open(os.path.join(out, f"check-{pid}.log"), "w").write(p.stdout[-6000:])
        log["checks"] = checks
    finally:
        sh(f"git -C /repo worktree remove --force {wt}")
        sh("rm -rf /verif/violations-scratch")
    meta["verification"] = log
    json.dump(meta, open(os.path.join(out, "meta.json"), "w"), indent=1)
    print(json.dumps(dict(name=name, confirmed=log.get("confirmed"), checks=log.get("checks")), indent=1))


if __name__ == "__main__":
    main()
