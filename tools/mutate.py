#!/usr/bin/env python3
"""Sensitivity protocol: apply one source mutation at a time to a scratch worktree of /repo, run the named
property check against it (VERIF_REPO), record whether it was caught, and reset the worktree.

  tools/mutate.py [name-prefix ...]      run the mutants whose name starts with one of the prefixes (default: all)

Results are appended to /verif/sensitivity/results.jsonl (one line per run).
"""
import json, os, re, subprocess, sys, time

ROOT = os.path.dirname(os.path.dirname(os.path.abspath(__file__)))
WT = os.environ.get("MUT_WT", "/tmp/mut-main")

# name, property, file (relative to repo), old, new
MUTANTS = [
 # ---- C11
 ("c11-mt-export-map-order", "C11", "modules/mt/keeper/balance.go", "for _, addr := range sortedKeys(ownerMap) {\n\t\tdenomMap := ownerMap[addr]", "for addr, denomMap := range ownerMap {"),
 ("c11-random-uses-wall-clock", "C11", "modules/random/abci.go", "currentTimestamp := ctx.BlockHeader().Time.Unix()", "currentTimestamp := time.Now().UnixNano()"),
 ("c11-oracle-time-since", "C11", "modules/oracle/keeper/keeper.go", "ctx.BlockTime().Sub(valueTime) > time.Minute*5", "time.Since(valueTime) > time.Minute*5"),
 ("c11-record-counter-in-process-cache", "C11", "modules/record/keeper/keeper.go", "intraTxCounter := k.GetIntraTxCounter(ctx)", "intraTxCounter := nextCounter()"),
 # ---- C12
 ("c12-farm-export-drops-last-height", "C12", "modules/farm/genesis.go", "__SPECIAL__", ""),
 ("c12-token-import-skips-burned", "C12", "modules/token/genesis.go", "__SPECIAL__", ""),
 ("c12-coinswap-import-sequence-off-by-one", "C12", "modules/coinswap/keeper/genesis.go", "__SPECIAL__", ""),
 ("c12-htlc-validate-strict-again", "C12", "modules/htlc/types/htlc.go", "if h.Transfer && h.Timestamp == 0 {", "if h.Timestamp == 0 {"),
 # ---- C13
 ("c13-random-drains-current-height", "C13", "modules/random/abci.go", "lastBlockHeight := ctx.BlockHeight() - 1", "lastBlockHeight := ctx.BlockHeight()"),
 ("c13-htlc-refund-one-block-late", "C13", "modules/htlc/abci.go", "currentBlockHeight := uint64(ctx.BlockHeight())", "currentBlockHeight := uint64(ctx.BlockHeight()) - 1"),
 ("c13-farm-refund-keeps-queue-entry", "C13", "modules/farm/keeper/farmer.go", "k.DequeueActivePool(ctx, pool.Id, pool.EndHeight)\n\tpool, _, err := k.updatePool", "pool, _, err := k.updatePool"),
 ("c13-service-new-batch-entry-kept-when-not-running", "C13", "modules/service/abci.go", "\t\tk.DeleteNewRequestBatch(ctx, requestContextID, ctx.BlockHeight())\n\t}", "\t\tif requestContext.State == types.RUNNING {\n\t\t\tk.DeleteNewRequestBatch(ctx, requestContextID, ctx.BlockHeight())\n\t\t}\n\t}"),
 # ---- C17
 ("c17-avg-divides-by-three", "C17", "modules/oracle/types/aggregate.go", "total/float64(len(data))", "total/3"),
 ("c17-trim-keeps-one-too-many", "C17", "modules/oracle/keeper/feed.go", "k.deleteOldestFeedValue(ctx, feedName, delta+1)", "k.deleteOldestFeedValue(ctx, feedName, delta)"),
 ("c17-state-callback-no-reindex", "C17", "modules/oracle/keeper/keeper.go", "\tk.dequeueAndEnqueue(ctx, feed.FeedName, oldState, reqCtx.State)\n}", "\t_ = oldState\n}"),
 ("c17-min-starts-at-zero", "C17", "modules/oracle/types/aggregate.go", "minNum := math.MaxFloat64", "minNum := 0.0"),
 ("c17-stamp-uses-header-time-minus", "C17", "modules/oracle/keeper/keeper.go", "Timestamp: ctx.BlockTime(),", "Timestamp: ctx.BlockTime().Add(-1),"),
 ("c17-edit-by-anyone", "C17", "modules/oracle/keeper/keeper.go", "__SPECIAL__", ""),
 # ---- C19
 ("c19-id-from-contents-only", "C19", "modules/record/keeper/keeper.go", "recordID := getRecordID(bz)", "recordID := getRecordID(recordBz)"),
 ("c19-counter-not-persisted", "C19", "modules/record/keeper/keeper.go", "k.SetIntraTxCounter(ctx, intraTxCounter+1)", "_ = intraTxCounter"),
]


def sh(cmd, **kw):
    return subprocess.run(cmd, shell=True, stdout=subprocess.PIPE, stderr=subprocess.STDOUT, text=True, **kw)


def special(name, path):
    s = open(path).read()
    if name == "c12-farm-export-drops-last-height":
        s2 = s.replace("pools = append(pools, pool)", "pool.LastHeightDistrRewards = 0\n\t\tpools = append(pools, pool)", 1)
    elif name == "c12-token-import-skips-burned":
        s2 = s.replace("k.AddBurnCoin(ctx, coin)", "_ = coin", 1)
    elif name == "c12-coinswap-import-sequence-off-by-one":
        s2 = s.replace("k.setSequence(ctx, genState.Sequence)", "k.setSequence(ctx, genState.Sequence+1)", 1)
    elif name == "c13-service-kill-leaves-new-batch":
        s2 = s
        i = s.find("func (k Keeper) KillRequestContext(")
        j = s.find("k.DeleteNewRequestBatch(", i)
        if j > 0:
            e = s.find("\n", j)
            s2 = s[:j] + "// mutant: forgot dequeue" + s[e:]
    elif name == "c17-edit-by-anyone":
        i = s.find("func (k Keeper) EditFeed(")
        j = s.find("if msg.Creator != feed.Creator {", i)
        s2 = s[:j] + "if false {" + s[j + len("if msg.Creator != feed.Creator {"):]
    else:
        raise SystemExit("no special for " + name)
    return s, s2


def main():
    prefixes = sys.argv[1:]
    if not os.path.isdir(WT):
        r = sh(f"git -C /repo worktree add --detach {WT}")
        if r.returncode != 0:
            print(r.stdout)
            raise SystemExit(1)
    sh(f"git -C {WT} checkout -q --detach $(git -C /repo rev-parse HEAD) && git -C {WT} checkout -q -- .")
    os.makedirs(os.path.join(ROOT, "sensitivity"), exist_ok=True)
    out = open(os.path.join(ROOT, "sensitivity", "results.jsonl"), "a")
    for name, prop, rel, old, new in MUTANTS:
        if prefixes and not any(name.startswith(p) for p in prefixes):
            continue
        path = os.path.join(WT, rel)
        if old == "__SPECIAL__":
            s, s2 = special(name, path)
        else:
            s = open(path).read()
            s2 = s.replace(old, new, 1)
        if s2 == s:
            print(f"{name}: PATTERN NOT FOUND")
            continue
        if name == "c11-record-counter-in-process-cache":
            s2 += "\nvar procCounter uint32\n\nfunc nextCounter() uint32 { procCounter++; return procCounter - 1 }\n"
        if name == "c11-random-uses-wall-clock" and '"time"' not in s2:
            s2 = s2.replace('import (', 'import (\n\t"time"', 1)
        open(path, "w").write(s2)
        b = sh(f"cd {os.path.dirname(path)} && GOPROXY=off GOSUMDB=off GOTOOLCHAIN=local go build ./... 2>&1 | tail -5")
        t0 = time.time()
        env = dict(os.environ, VERIF_REPO=WT)
        r = subprocess.run([os.path.join(ROOT, "check"), prop, "--tier", "quick"], cwd=ROOT, env=env, stdout=subprocess.PIPE, stderr=subprocess.STDOUT, text=True)
        sigs = sorted(set(re.findall(r"\b(C\d\d/[A-Za-z0-9_./-]+)", r.stdout)))
        rec = dict(mutant=name, property=prop, file=rel, exit=r.returncode, caught=(r.returncode == 1), signatures=sigs[:4], wall_s=round(time.time() - t0, 1),
                   repo_head=sh("git -C /repo rev-parse --short HEAD").stdout.strip(), build=b.stdout.strip()[-200:])
        print(json.dumps(rec))
        out.write(json.dumps(rec) + "\n")
        out.flush()
        open(path, "w").write(s)
        sh(f"git -C {WT} checkout -q -- .")
    sh(f"git -C /repo worktree remove --force {WT}")
    sh("rm -rf /verif/violations-scratch")


if __name__ == "__main__":
    main()
