#!/usr/bin/env python3
"""tools/seedsum.py <round>: one line per seeded change of a round (confirmed? caught by which check, signatures)."""
import json, os, sys
ROOT = os.path.dirname(os.path.dirname(os.path.abspath(__file__)))
r = sys.argv[1]
for i in range(1, 21):
    p = os.path.join(ROOT, "seeded", f"C{i:02d}-{r}", "meta.json")
    if not os.path.exists(p):
        print(f"C{i:02d}-{r} (missing)"); continue
    v = json.load(open(p)).get("verification", {})
    print(f"C{i:02d}-{r}", "confirmed=" + str(v.get("confirmed")),
          [(c["property"], "caught" if c["caught"] else "MISSED", c.get("exit"), c.get("signatures")) for c in v.get("checks", [])])
