#!/usr/bin/env python3
"""Prints a markdown status table from /verif/evidence/*.json and /verif/checks/*.json."""
import json, glob, os
print("| id | package: tests | quick cases | distinct non-trivial | replays | quick wall |\n|---|---|---|---|---|---|")
for f in sorted(glob.glob('/verif/evidence/C*.json')):
    e = json.load(open(f)); pid = e['property_id']
    c = json.load(open(f'/verif/checks/{pid}.json'))
    tests = ", ".join(t['name'] for t in c['tests'])
    cov = e['coverage']
    print(f"| {pid} | {c['package']}: {tests} | {cov['evaluations']:,} | {cov['distinct_nontrivial']:,} | {cov.get('replays_run',0)} | {e['wall_s']:.0f} s ({e['tier']}) |")
