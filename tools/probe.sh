#!/bin/bash
# tools/probe.sh <seeded name> <property> [tier]: runs one check against a kept seeded change without recording anything.
name=$1; prop=$2; tier=${3:-quick}
wt=/tmp/probe-$name-$prop
git -C /repo worktree remove --force $wt >/dev/null 2>&1
git -C /repo worktree add --detach $wt >/dev/null 2>&1 || exit 2
( cd $wt && git apply --3way /verif/seeded/$name/patch.diff ) >/dev/null 2>&1 || { echo "patch failed"; git -C /repo worktree remove --force $wt; exit 2; }
cd /verif && VERIF_REPO=$wt ./check $prop --tier $tier > /tmp/probe-$name-$prop.log 2>&1
rc=$?
git -C /repo worktree remove --force $wt >/dev/null 2>&1
echo "$name $prop exit=$rc $(grep -o 'C[0-9][0-9]/[a-z0-9/>=:-]*' /tmp/probe-$name-$prop.log | sort | uniq -c | sort -rn | head -3 | tr '\n' ' ')"
