#!/usr/bin/env python3
"""Measures which statements of the property's anchor files the generators actually execute.

  tools/coverage.py C05 [C06 ...] [--scale 0.5]

Builds the property's test package with -cover -coverpkg=<the ten irismod modules>, runs every rapid test of the
quick tier (one shard, same steps) with a coverage profile, and prints per anchor file the statement coverage and
the uncovered blocks (file:line ranges with the first source line).  Output also goes to /verif/coverage/<ID>.txt.
It is a generator-quality measurement (DESIGN 9.8), not a check: nothing here decides a property.
"""
import glob, json, os, re, subprocess, sys, hashlib

ROOT = os.path.dirname(os.path.dirname(os.path.abspath(__file__)))
HARNESS = os.path.join(ROOT, "harness")
MODS = ["coinswap", "farm", "htlc", "mt", "nft", "oracle", "random", "record", "service", "token"]
ENV = dict(os.environ, GOFLAGS="-mod=mod", GOPROXY="off", GOSUMDB="off", GOTOOLCHAIN="local")


def main():
    args = [a for a in sys.argv[1:] if not a.startswith("--")]
    scale = float(sys.argv[sys.argv.index("--scale") + 1]) if "--scale" in sys.argv else 1.0
    if "--scale" in sys.argv:
        args.remove(sys.argv[sys.argv.index("--scale") + 1])
    props = {json.loads(l)["id"]: json.loads(l) for l in open(os.path.join(ROOT, "properties.jsonl"))}
    os.makedirs(os.path.join(ROOT, "coverage"), exist_ok=True)
    for pid in args:
        cfg = json.load(open(os.path.join(ROOT, "checks", pid + ".json")))
        work = f"/tmp/cover-{pid}"
        subprocess.run(["rm", "-rf", work])
        os.makedirs(work)
        binary = os.path.join(work, "t.test")
        coverpkg = ",".join(f"mods.irisnet.org/modules/{m}/..." for m in MODS)
        p = subprocess.run(["go", "test", "-c", "-cover", "-covermode=set", "-coverpkg", coverpkg, "-tags", "verif", "-o", binary, "./props/" + cfg["package"]],
                           cwd=HARNESS, env=ENV, stdout=subprocess.PIPE, stderr=subprocess.STDOUT, text=True)
        if p.returncode != 0:
            print(p.stdout[-3000:])
            continue
        profiles = []
        for test in cfg["tests"]:
            if test.get("fuzz"):
                continue
            q = test["quick"]
            out = os.path.join(work, test["name"])
            os.makedirs(out)
            prof = os.path.join(out, "cover.out")
            env = dict(ENV, VERIF_OUT=out, VERIF_KNOWN=os.path.join(ROOT, "known_findings.json"), VERIF_TIER="quick", VERIF_SEED="1", VERIF_SHARD="0")
            for k, v in (test.get("env") or {}).items():
                env[k] = str(v)
            for k, v in (q.get("env") or {}).items():
                env[k] = str(v)
            checks = max(1, int(q["checks"] * scale))
            cmd = [binary, "-test.run", f"^{test['name']}$", f"-rapid.checks={checks}", "-rapid.seed=7", "-rapid.nofailfile",
                   f"-rapid.steps={q.get('steps', 30)}", "-test.timeout", "3000s", "-test.coverprofile", prof]
            r = subprocess.run(cmd, cwd=out, env=env, stdout=subprocess.PIPE, stderr=subprocess.STDOUT, text=True)
            print(pid, test["name"], "exit", r.returncode, "checks", checks)
            if os.path.exists(prof):
                profiles.append(prof)
        # merge: block -> max count
        blocks = {}
        for prof in profiles:
            for line in open(prof):
                if line.startswith("mode:"):
                    continue
                m = re.match(r"(\S+):(\d+)\.(\d+),(\d+)\.(\d+) (\d+) (\d+)", line)
                if not m:
                    continue
                key = (m.group(1), int(m.group(2)), int(m.group(3)), int(m.group(4)), int(m.group(5)), int(m.group(6)))
                blocks[key] = max(blocks.get(key, 0), int(m.group(7)))
        anchors = props[pid]["anchors"]["files"]
        lines = []
        for a in anchors:
            for path in sorted(glob.glob(os.path.join("/repo", a))):
                if os.path.isdir(path) or not path.endswith(".go") or path.endswith(".pb.go") or path.endswith(".pb.gw.go"):
                    continue
                rel = os.path.relpath(path, "/repo")  # modules/<m>/...
                imp = "mods.irisnet.org/" + rel
                mine = sorted(k for k in blocks if k[0] == imp)
                if not mine:
                    lines.append(f"{rel}: no coverage data")
                    continue
                tot = sum(k[5] for k in mine)
                cov = sum(k[5] for k in mine if blocks[k] > 0)
                lines.append(f"{rel}: {cov}/{tot} statements ({100*cov//max(tot,1)}%)")
                src = open(path).read().split("\n")
                for k in mine:
                    if blocks[k] == 0:
                        first = src[k[1] - 1].strip() if k[1] - 1 < len(src) else ""
                        nxt = src[k[1]].strip() if k[1] < len(src) else ""
                        lines.append(f"    uncovered {rel}:{k[1]}-{k[3]} ({k[5]} stmts): {first[:90]} | {nxt[:90]}")
        text = "\n".join(lines)
        open(os.path.join(ROOT, "coverage", pid + ".txt"), "w").write(text + "\n")
        print(text)
        subprocess.run(["rm", "-rf", work])


if __name__ == "__main__":
    main()
