#!/bin/bash
# Runs every property's quick check on the unchanged tree (4 at a time) and prints one line per property.
cd /verif || exit 2
run() { p=$1; s=$(date +%s); ./check $p --tier quick > /tmp/allquick-$p.log 2>&1; rc=$?; echo "$p exit=$rc wall=$(( $(date +%s)-s ))s $(grep -c 'VIOLATION\|INCONCLUSIVE' /tmp/allquick-$p.log)"; }
export -f run
printf "%s\n" C01 C02 C03 C04 C05 C06 C07 C08 C09 C10 C11 C12 C13 C14 C15 C16 C17 C18 C19 C20 | xargs -P ${PAR:-4} -I{} bash -c 'run {}'
