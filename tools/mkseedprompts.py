#!/usr/bin/env python3
"""Writes the prompts of seeded-change round N (seeded/_prompts/CXX-N.txt) from the previous round's prompts:
same text, own worktree path, and the list of all earlier seeded changes for the property (from their meta.json)."""
import json, os, re, sys
ROOT = os.path.dirname(os.path.dirname(os.path.abspath(__file__)))
n = int(sys.argv[1])
words = {2: "one", 3: "two", 4: "three", 5: "four", 6: "five", 7: "six", 8: "seven", 9: "eight", 10: "nine", 11: "ten", 12: "eleven"}
hints = {
 5: "Aim for a defect in a part of the behaviour that is easy to overlook when writing a test generator: a query or secondary index rather than the primary record, an optional message field, a rarely used message type or keeper entry point used by another module, a code path only taken after a parameter change, migration or genesis import, a second denomination or account kind, or cleanup that should happen when an object is removed.",
 7: "Aim for a defect at an interaction: between two modules (one module's keeper or callback used by another: service with oracle/random, coinswap with farm, token with htlc or coinswap), between two messages of one transaction or two transactions of one block, between an operation and a query that should be read-only, between what an event or response reports and what the store holds, or between a rejected or partially applied operation and the next accepted one. Prefer functions and files that none of the earlier seeded changes touched, and inputs that are valid but that a test generator would only produce on purpose.",
 8: "Aim for a defect that lives at a limit or in a conversion: a height, counter, sequence, timestamp or amount near the end of its integer type (uint64/int64 casts, Int64()/Uint64() of a big integer, subtraction of unsigned values, int truncation of a length or index), a decimal that is truncated or rounded when it is converted or multiplied in a different order, an amount of 2^63 or more, a token scale of 0 or 18, a duration or time of zero or far in the future, an empty list or string where one element is the norm, the first or the last element of a range or page. The ordinary mid-range values that the existing tests use must keep working.",
 9: "Aim for a defect in how keys, prefixes, iteration or ordering are handled: an iterator whose range is one too short or too long, a prefix that also covers other ids, ids or names of different lengths that collide once concatenated, a pagination or limit that drops or repeats an element, a result built from a Go map or in store order where another order is promised, a reverse iteration, a loop that stops at the first match or modifies the store while iterating it, a secondary index that is written or deleted under a slightly different key than it is read. Only particular combinations of names, ids or counts should be affected.",
 10: "Aim for a defect in error handling or in who is checked: an error that is swallowed, overwritten or only logged; a return value that is ignored; state written (or coins moved, or an event emitted) before a later check fails inside the same keeper call; a cleanup step skipped on an early return; a `continue`/`break`/`return` confusion in a loop over several items; a response or event that reports something other than what was stored; an authorization or identity check applied to the wrong party (owner vs provider vs sender vs recipient vs consumer, module account vs user account) or only on one of two entry points to the same keeper function (message vs proposal vs another module's keeper call vs genesis). Ordinary single-actor flows must keep working.",
 11: "Aim for a defect that only a particular CONFIGURATION or HISTORY OF CONFIGURATION exposes: a parameter read once and cached or read at the wrong moment (at creation instead of at use, or the other way round), a parameter whose change should not affect objects created earlier (or should, and does not), a feature switch that is honoured on one path and not on another, a denom/base-denom/fee-denom parameter assumed to be the default, a limit of zero or 'unlimited' treated like a number, two parameters that must be read together. With default parameters and without parameter changes everything must behave as before.",
 6: "Aim for a defect whose effect is delayed or indirect: the faulty step leaves state that looks right to the operation that wrote it and goes wrong only in a later, different operation (possibly of another module or another account), after several blocks, or only when two objects share a name prefix, a height, an owner or a denomination.",
}
for i in range(1, 21):
    pid = f"C{i:02d}"
    prev = open(os.path.join(ROOT, "seeded", "_prompts", f"{pid}-{n-1}.txt")).read()
    s = prev.replace(f"seed-c{i:02d}-{n-1}", f"seed-c{i:02d}-{n}")
    lines = []
    for k in range(1, n):
        m = json.load(open(os.path.join(ROOT, "seeded", f"{pid}-{k}", "meta.json")))
        summ = re.sub(r"\s+", " ", m.get("summary", ""))[:420]
        lines.append(f"  ({k}) {summ} [files: {', '.join(m.get('files', []))}]")
    note = (f"NOTE: {words[n]} earlier seeded changes for this property already exist — do something DIFFERENT from all of them "
            "(another mechanism, another clause of the statement if it has several, another file or function where possible; no variations of them):\n" + "\n".join(lines) + "\n")
    a = s.index("NOTE:")
    b = s.index("Aim for a defect")
    e = s.index("\n", b)
    s = s[:a] + note + hints.get(n, s[b:e]) + s[e:]
    open(os.path.join(ROOT, "seeded", "_prompts", f"{pid}-{n}.txt"), "w").write(s)
print("written round", n)
