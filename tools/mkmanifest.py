#!/usr/bin/env python3
"""Regenerates /verif/MANIFEST.json from the table below (one entry per claimed property)."""
import json, os

ROOT = os.path.dirname(os.path.dirname(os.path.abspath(__file__)))
TECH = "property-based testing (pgregory.net/rapid)"

CLAIMED = {
 "C01": dict(
  text="Two layers. Pure: keeper.GetInputPrice/GetOutputPrice against a math/big reference over operands up to 2^128 and fees from 10^-18 to 1-10^-18, with a constructive generator for the exact-division residue: the fee-inclusive constant-product rule holds for the returned amount and fails for one unit more (input), and the price lies in [p_min, p_min+1] (output); a panic is only accepted as the 256-bit overflow refusal when a product really exceeds the range. Histories: add (incl. pool creation) / remove / one-sided add and remove on either side / swaps (sell, buy, single and double hop; recipients also in upper-case bech32) / donations to escrow (reserve coins, third coins, the pool's own share tokens) / one-sided operations naming a parked coin / parameter changes / blocks by several accounts, over up to four pools two of whose coins differ by letter case only; after every successful message S'T'L^2 >= STL'^2 for every pool, untouched pools bit-identical, every swap leg read off the reserve deltas satisfies the rule and optimality against the pre-state reserves and the fee in force.",
  note="Bounded random search (<=3 pools, reserves and shares <=2^128, <=40-80 ops); SDK/bank/rapid trusted.",
  technique=TECH + ": pure function vs big-integer reference (random + constructive boundary generator) and state machine with per-step invariant, shrinking to JSON replay",
  ref="DESIGN.md §4 C01"),
 "C02": dict(
  text="The C01 history machine with the balance-sheet oracle: the whole bank sheet (every account, every supply) is diffed around each message and must equal exactly the moves the property allows - sender debited the sold coin only, recipient credited the bought coin only, intermediate standard coin netting to zero for both on routed swaps, pools changing by their legs, bounds and deadlines respected, liquidity tokens minted/burned only against deposits/withdrawals of the pool's two reserve coins, pool creation fee split into tax and burn, responses equal to observed deltas; rejected messages are re-run on a branch with only the deadline moved or the bounds loosened to detect rejections the property does not allow.",
  note="Same bounds as C01; recipients include other users, poor accounts, blocked addresses, pool escrows and the module account; SDK/bank/rapid trusted.",
  technique=TECH + ": state machine with exact balance-sheet delta oracle and branch probes, shrinking to JSON replay",
  ref="DESIGN.md §4 C02"),
 "C03": dict(
  text="rapid state machine over create (plain, multi-coin, incoming/outgoing cross-chain, duplicates, every timestamp/time-lock boundary) / claim (right, foreign, random, malformed secret; any sender) / blocks biased to expiry-1, expiry, expiry+1; an independent model recomputes ids and hash locks and predicts claim acceptance exactly; after every message and block the exact balance-sheet delta, the refund-event id set, contract terms and state transitions are compared, and a rejected message must leave balances and the htlc store image untouched.",
  note="Bounded random search (<=8-12 contracts, <=130 blocks, 6 users, two cross-chain assets); asset removal/limit lowering while transfers are open is a governance precondition kept behind a switch (DESIGN §5 F11); SDK/bank/rapid trusted.",
  technique=TECH + ": state machine vs reference model with exact balance-sheet deltas, shrinking to JSON replay",
  ref="DESIGN.md §4 C03"),
 "C04": dict(
  text="The C03 machine with generated asset parameters (limits, time-limited or not, periods, fees, min/max amounts and locks, deputies) installed and later changed compatibly by the authority, and block-time steps aimed at the limit period (exactly at, 1 ns below/above); at every end-block and begin-block the escrow balance, the per-asset incoming/outgoing/current counters, bank supply, and the time-limited counter (against the model's own window accumulator) are compared, and current+incoming <= limit and window amount <= time-based limit are asserted within a parameter epoch.",
  note="Same bounds as C03; open/completed state is read from the HTLC query, amounts and directions from the model; SDK/bank/rapid trusted.",
  technique=TECH + ": state machine vs reference model, invariants at every block boundary, shrinking to JSON replay",
  ref="DESIGN.md §4 C04"),
 "C05": dict(
  text="rapid state machine over create (start now or later, 1-2 reward denoms with different exhaustion heights, tiny and huge rates, editable or not) / stake / unstake (full, partial, over) / harvest / adjust (top-up and/or new rate) / destroy / blocks, by four farmers, the creator and strangers, with a 1/4 bias to stop exactly at a pool's start, end or end-1 height and aim the next operation at that pool; after every step the stored stakes equal the stakes made and sum to the recorded pool total, the farm account equals recorded totals plus recorded remaining budgets, an unstake of at most the recorded stake succeeds and pays exactly the amount plus the pending reward queried just before; a full-withdrawal epilogue (every farmer withdraws everything, in a generated order) runs on a branch at generated points, at the end of the history and again after every pool has expired, and each withdrawal must succeed.",
  note="Bounded random search (<=3 farm pools, 4 farmers, <=60-100 ops, amounts <=2^100: beyond that the 315-bit decimal accumulator overflows for reasons of number width); refund to the community pool route is not exercised (the escrow collector account is not registered in the test app); SDK/bank/rapid trusted.",
  technique=TECH + ": state machine vs math/big reference model with withdrawal epilogue on branches, shrinking to JSON replay",
  ref="DESIGN.md §4 C05"),
 "C06": dict(
  text="The C05 machine with the reward oracle: an exact rational model steps every pool and denomination block by block (released += rate only while somebody is staked; budget = remaining + released; end height = start + min floor(budget/rate), recomputed per rule on adjust), the refund is checked exactly once by full balance-sheet deltas on every operation and block, and each farmer's paid + pending must stay within (interactions+1) base units plus the 10^-18*stake accumulator truncation of the exact stake-time share; every pool is run to its end. A metamorphic test runs each history twice, the second time with 0-3 extra harvests before every operation, and compares payouts directly.",
  note="Same bounds as C05; SDK/bank/rapid trusted.",
  technique=TECH + ": state machine vs exact-rational reference model + metamorphic relation (harvest frequency), shrinking to JSON replay",
  ref="DESIGN.md §4 C06"),
 "C07": dict(
  text="rapid state machine over define / bind / update / enable / disable / refund-deposit / set-withdraw-address / call (one-shot and repeated, provider subsets, fee caps around the discounted price) / respond (right, wrong, duplicate, late) / withdraw / parameter changes / blocks, with pricing generated from the module's own pricing grammar (time and volume promotions, several denoms through a table-driven exchange-rate source, one of them debited after the base denom) and consumers that run out of money or can pay a batch in part only; a big-number model predicts the exact coin moves of every operation and, after every step, the three escrow equations (deposit escrow = recorded deposits; request escrow = fees of active requests + unwithdrawn earned fees; owner tally = sum of provider tallies), and per end-block the refunds, slashes and charges per consumer and the whole balance-sheet change.",
  note="Bounded random search (<=4 providers, 3 consumers, <=50-80 ops); the oracle price source is a table-driven module service registered by the harness; SDK/bank/rapid trusted.",
  technique=TECH + ": state machine vs big-number reference model with exact balance-sheet deltas, shrinking to JSON replay",
  ref="DESIGN.md §4 C07"),
 "C08": dict(
  text="The C07 machine with the request/context oracle: respond succeeds exactly when the provider is the addressed one and the request is still active; one outcome per request (including the count of active markers in the store); the contents of every issued batch are predicted from the provider filter; batch issue heights are read from the batch counter and checked for timing between consecutive batches of unmodified contexts, no batch while paused, no batch beyond the total, one-shot contexts issuing one batch and disappearing; only the consumer may pause/start/kill/update; a harness module registered through the keeper's callback API records callbacks, whose exact set per step (one per completed batch, with outputs iff the threshold was met) is compared; slash and refund effects at expiry. Exchange-rate outages are generated so that unpriceable batches are reached.",
  note="Same bounds as C07; contexts created through the keeper API with thresholds 1..N in addition to MsgCallService; SDK/bank/rapid trusted.",
  technique=TECH + ": state machine vs reference model, callback recorder, shrinking to JSON replay",
  ref="DESIGN.md §4 C08"),
 "C09": dict(
  text="rapid state machine over issue / edit / mint / burn / transfer-owner (v1 and legacy messages) by owners, former owners, strangers and poor accounts, symbols and min units from overlapping pools so that collisions happen, scales 0..18, amounts placed at the cap, one over it and in fractions of a main unit, parameter changes and ERC20 deployments by the authority (for issued tokens and for traced denoms, whose module-owned record takes the message's symbol: fresh, taken, or a taken one in other letter case); a math/big model predicts acceptance and the exact balance-sheet delta including the fee split, and checks identity uniqueness, owner index, supply <= cap after every step, burned tally and an empty module account.",
  note="Bounded random search (<=40-80 ops, 6 users, 8-word symbol pools); the fee factor is re-evaluated with float64 like the code (no symbol length lies near a rounding boundary, asserted at run time); ante handlers are not run; SDK/bank/rapid trusted.",
  technique=TECH + ": state machine vs reference model with exact balance-sheet deltas, shrinking to JSON replay",
  ref="DESIGN.md §4 C09"),
 "C10": dict(
  text="Two layers. Pure: types.LossLessSwap against big.Rat over amounts <= 2^128, scales 0..18 and positive 18-decimal ratios, with a constructive generator for the rounding boundary: 0 <= burned <= offered, minted*10^in <= burned*ratio*10^out, and exactness plus the dust bound at ratio 1. Histories: deploy / swapToERC20 / swapFromERC20 / contract-side swapToNative + hook / swapFeeToken / mint / burn / enable-disable over five tokens with a transactional in-memory EVM and injected faults (error, revert, +-1 mis-credit, silent no-op), receivers including blocked, new and malformed addresses: native supply + ERC20 supply changes only by the modelled operations, a successful conversion moves exactly the amount on both sides, a failed one leaves bank and EVM state untouched.",
  note="The EVM is the harness's in-memory implementation of types.EVMKeeper (trusted); amounts above 2^128 are out of bounds (Int overflow = rejection); exactness only claimed at ratio 1, as the property says.",
  technique=TECH + ": pure function vs big.Rat reference (random + constructive boundary generator) and state machine with fault injection, shrinking to JSON replay",
  ref="DESIGN.md §4 C10"),
 "C11": dict(
  text="Generated histories of signed transactions over all ten modules run through InitChain/FinalizeBlock/Commit on several replicas of one genesis: a second run in the same process (fresh map seeds), a replica restarted (new app object over the same DB) at generated block boundaries, a replica in a second OS process, and a replica executed after a real sleep with chain time placed so that candidate host-clock thresholds are straddled. Per block the app hash, tx results and a hash of every store, and at the end the exported genesis (exported several times) must be byte-identical.",
  note="Bounded random search (<=60 blocks, <=4 txs per block, 4 funded users); one amd64 host, so cross-architecture floating point is not varied; host-clock thresholds are straddled only for candidate durations (constants next to clock reads in the sources plus a fixed grid) with 6-10 s margins; SDK/IAVL/rapid trusted.",
  technique=TECH + ": state machine over blocks, differential between replicas (restart / second process / delayed wall clock), shrinking to JSON replay",
  ref="DESIGN.md §4 C11"),
 "C12": dict(
  text="Generated all-module histories on an ABCI node; at generated heights (as-is) and at the end (as-is and zero-height after the modules' own preparation) the state is exported and imported into a fresh application: import must be accepted and the registered invariants hold, exporting the imported application again must give the same genesis for each of the ten modules, and a catalogue of ~100-300 queries about durable objects (pools, farm pools and farmers with pending rewards, open HTLCs and asset supplies, tokens and burned totals, NFT/MT classes, holdings and supplies, service definitions/bindings/withdraw addresses/contexts, feeds with value history, pending random requests, every record by id) must answer byte-identically. At generated heights the imported application is also kept as a second chain that executes the rest of the history (including stretches of up to 60 empty blocks): it must complete every block, accept exactly the transactions the original accepts, keep its htlc/farm/service/random queues consistent with its objects after every block, and at the end export the same irismod genesis and answer the catalogue like the original; the chain restarted from the zero-height export runs eight empty blocks with the queue scans and the registered invariants. Four recorded findings are excluded by narrowly named clauses whose hit counts are reported.",
  note="Bounded random search (<=60 block operations plus idle stretches, 4 funded users, default parameters except what histories change); a chain is not continued after import while it holds a running request context (F9e), service fee books (F27) or a pending service schedule entry, and the comparison ends at an oracle-seeded random request with several seed providers (the provider is drawn from the app hash, which a genesis does not carry); SDK/IAVL/rapid trusted.",
  technique=TECH + ": state machine over blocks, round-trip (export -> import -> export), differential query oracle and metamorphic chain continuation (export/import commutes with block execution), shrinking to JSON replay",
  ref="DESIGN.md §4 C12"),
 "C13": dict(
  text="The all-module history generator on the ABCI driver (real FinalizeBlock with every module's begin and end blocker), biased towards objects that fall due in the block being built (farm pool at its start/end height: adjust, destroy, stake, harvest; request context with a batch starting or expiring: pause, start, kill, update; HTLC at its expiry: claim); providers report everyday, zero, negative, tiny and astronomical values, also to the feeds that serve as exchange rates. After every block: the block completed without error or panic; HTLC expiry-queue entries are exactly the open contracts, none at or below the height, and the block's refund events are exactly the contracts open with that expiry; the farm queue holds exactly the pools not yet ended and ended pools hold no reward budget; every service queue entry names an existing context above the height, running contexts have exactly one entry, paused/killed ones at most one; the random queue holds nothing below the height and every plain request due was answered by exactly one event and is readable.",
  note="Bounded random search (<=80-120 blocks so that the 50-block minimum HTLC time lock expires, 4 funded users, default parameters; parameter sets crossed with block hooks are C16's differential); exactly-once amounts are decided by C03/C06/C07/C08; SDK/IAVL/rapid trusted.",
  technique=TECH + ": state machine over blocks with store-level queue invariants and per-block event sets, shrinking to JSON replay",
  ref="DESIGN.md §4 C13"),
 "C14": dict(
  text="rapid state machine over issue-class (all four flag combinations) / mint / edit / transfer (all-sentinel, one field changed, mixed; to self) / burn / class hand-over by owners, creators and strangers over regular and odd ids; a reference map predicts acceptance exactly for every clause (owner-only edit/transfer/burn, mint restriction, update restriction on edit and on transfer-with-changes, creator-only hand-over, no id reuse while a token exists) and after every message every query (Denom, Denoms, Collection, NFT, Supply per class and per owner with their sum, NFTsOfOwner) and the supply invariant are compared with the model.",
  note="Bounded random search (14 class ids, 9 token ids plus one burst of 101-130 tokens in one class, 4 senders, <=40-80 ops); input-syntax rules follow the code where it is laxer (counted); SDK/rapid trusted.",
  technique=TECH + ": state machine vs reference map with exact acceptance prediction, shrinking to JSON replay",
  ref="DESIGN.md §4 C14"),
 "C15": dict(
  text="rapid state machine over issue-class / mint new / mint existing / edit / transfer (incl. to self) / burn / class hand-over with amounts over the whole uint64 range drawn by shape (tiny, random bit length, 2^63 and 2^64-1 boundaries, held-1/held/held+1, room-1/room/room+1); the ledger is kept in big.Int so a wrap is visible; acceptance is predicted exactly, generated class and token ids must be pairwise distinct, and after every message Denoms/MTs/Balances (all pages), MTSupply, the exported balances summed per token, and SupplyInvariant are compared with the ledger.",
  note="Bounded random search (<=40-80 ops, 6 accounts); SDK/rapid trusted.",
  technique=TECH + ": state machine vs big.Int reference ledger, shrinking to JSON replay",
  ref="DESIGN.md §4 C15"),
 "C16": dict(
  text="Two machines. Authority: parameter sets over the whole message space of coinswap, farm, htlc, service and token (every decimal from absent/negative/0/10^-18 to >1 and 2^315-1, coins with nil/negative/zero/huge amounts and empty/odd denoms, durations 0/1ns/max/negative, integers min/0/1/max, HTLC asset lists with boundary values) submitted by the authority, users, the module account and garbage senders through the router, the Msg server directly, SetParams and genesis import: a non-authority never changes anything, the authority stores exactly the submitted set iff the module's own Validate() accepts it, a rejected set is never stored by genesis. Differential: on a prepared all-module state, for an accepted non-default set P and each of 43 catalogued operations (every Msg method of the five modules, enumerated through the protobuf registry) and for runs of 1-61 blocks, the operation under the restored defaults and under P are compared: violation iff the default run ends in success or an ordinary rejection and the run under P panics (for block hooks also an error or a 256-bit overflow); a third run executes the whole sequence under the defaults, so that an abort on a state the sequence itself reached under P is reported even though the same-state default run shares it.",
  note="Bounded random search over parameter values and states; one module's parameters differ from the defaults at a time; a 256-bit range panic in a message handler counts as rejection; SDK/rapid trusted.",
  technique=TECH + ": state machine (authority/validity oracle) + differential testing under default vs generated parameter sets, shrinking to JSON replay",
  ref="DESIGN.md §4 C16"),
 "C17": dict(
  text="rapid state machine on top of the service flow: create/start/pause/edit feeds by creator and strangers (latest-history shrinking and growing, thresholds, provider sets), providers answer with decimal strings of either sign (0-10 fractional digits, 1e-8..1e15), error results or not at all, a poor creator whose funds run out, blocks. Every completed batch (complete_batch event) is judged with the outputs the harness itself submitted and the threshold in force when the batch was issued: exactly one new value iff the threshold was met, equal to the exact big.Rat aggregate within 0.5e-8 + (n+2)*2^-52*max|x|, stamped with the block time; after every step values are newest-first, never more than latest-history, otherwise unchanged; the feed state index mirrors the request context; strangers are rejected without effect.",
  note="Bounded random search (<=4 feeds, 3 providers, <=120 steps); answers lacking the JSON field are outside the numeric clause; SDK/bank/rapid trusted.",
  technique=TECH + ": state machine vs exact-rational reference model, shrinking to JSON replay",
  ref="DESIGN.md §4 C17"),
 "C18": dict(
  text="History machine: plain and oracle-seeded requests by four requesters (intervals 0..20, joining pending due heights, and huge ones that must stay queued), generated app hashes and block times per block, a provider answering with a valid seed / schema-violating body / error result / not at all; the model knows request ids as sha256(height||consumer), requires the queue to equal the pending set, fulfilment exactly in the begin-block after h+n with exactly one event (oracle: in the block the valid seed arrives, never after a failed call), the stored string to match ^0\\.\\d{20}$ and to equal an independent re-implementation of the mixing, numbers to read back unchanged for ever, and (metamorphic) due numbers not to change when an unrelated request with other tx bytes is added on a branch. Pure: MakePRNG(...).GetRand() against the re-implementation over hash, address and seed lengths and timestamps up to MaxInt64.",
  note="Bounded random search (<=60-100 steps, service MaxRequestTimeout lowered to 3 so time-outs are reachable); preconditions of the service call follow the code (counted); SDK/rapid trusted.",
  technique=TECH + ": state machine vs reference model + independent re-implementation of the PRNG (differential) + metamorphic branch, shrinking to JSON replay",
  ref="DESIGN.md §4 C18"),
 "C19": dict(
  text="Generated histories of record creations (byte-identical duplicates within one tx - up to 300 of them -, one block and across blocks; a record counter aged to the end of its range), blocks and other-module messages; after every step every id ever returned is read back and compared with what was submitted, ids are checked pairwise distinct and the raw record store is checked to only grow.",
  note="Bounded random search (history length, 3 creators, small content alphabet); SDK/bank/store and rapid trusted; no proof of absence.",
  technique=TECH + ": state machine vs reference map, shrinking to JSON replay",
  ref="DESIGN.md §4 C19"),
 "C20": dict(
  text="Exhaustive enumeration plus generated values. Descriptors: every file registered by gogoproto under irismod/ and its twin in protoregistry.GlobalFiles (55 files, 321 messages, 772 fields, 4 enums, 22 services, 120 methods, 22 gRPC service descriptors) compared element by element and as whole FileDescriptorProto (file-level options and source info aside), nothing missing on either side or in proto/irismod. Wire: for each of 308 message types values generated from the descriptor (empty, default, maximal, random; nested and Any-typed) go pulsar -> gogo -> bytes -> pulsar and gogo -> pulsar -> bytes -> gogo and must give equal messages and identical bytes (multi-entry maps compared decoded). Signers: every Msg method's request type resolves in the interface registry, declares cosmos.msg.v1.signer on an existing string field, and three independent signer readers return exactly the generated address. A byte-level fuzz target feeds arbitrary bytes to both decoders (accept/reject and canonical re-encoding must agree; native fuzzing in the thorough tier). Two recorded findings are excluded by exactly the affected field / input shape.",
  note="The enumeration is exhaustive (finite lists); values are bounded random (300-500 per type); gogoproto's unordered map marshalling is compared decoded; protobuf-go, gogoproto and rapid trusted.",
  technique=TECH + ": exhaustive descriptor enumeration + descriptor-driven round-trip/differential value generation + byte-level fuzzing of both decoders",
  ref="DESIGN.md §4 C20"),
}

def main():
    props = [json.loads(l) for l in open(os.path.join(ROOT, "properties.jsonl"))]
    checks, na = [], []
    for p in props:
        pid = p["id"]
        c = CLAIMED.get(pid)
        cfg = os.path.join(ROOT, "checks", pid + ".json")
        if c is None or not os.path.exists(cfg):
            na.append(dict(property_id=pid, reason=(c or {}).get("na") or NA.get(pid) or "check not built yet in this round (work in progress; DESIGN.md §4 describes the planned generated check)"))
            continue
        checks.append(dict(
            property_id=pid, quick_cmd=f"./check {pid} --tier quick", thorough_cmd=f"./check {pid} --tier thorough",
            evidence_file=f"/verif/evidence/{pid}.json", replay_cmd_template=f"./check {pid} --replay {{path}}", engine="rapid-harness",
            level_claimed=dict(category="exploration", text=c["text"], design_ref=c["ref"]),
            level_note=c["note"], technique=c["technique"]))
    m = dict(
        version=1, setup_cmd="./check --build",
        hooks=dict(guard="verif", enable="go test -tags verif (the check driver always builds the harness with -tags verif). One hook file, /repo/e2e/a_verif_hook.go: with the tag on, the test application also registers the farm escrow_collector module account, so that the farm community pool proposal path (C06) can run on it; nothing else in /repo depends on the tag",
                   baseline_off_cmd="/verif/baseline.sh", source_commits=["6ae2b7e"], add_only=True),
        engines=[dict(name="rapid-harness", path="/verif/harness", serves_properties=[c["property_id"] for c in checks],
                      kind_free_text="Go test binaries (one per property package under harness/props): pgregory.net/rapid v1.3.0 state machines and pure properties over a cache-branched SimApp (K-driver) or an ABCI-level node (A-driver), driven by /verif/check which shards, merges statistics into evidence and maps outcomes to exit codes")],
        checks=checks, not_applicable=na,
        notes="All checks are property-based tests / fuzzing (DESIGN.md). Genuine defects found are listed in known_findings.json (status fixed = repaired by a fix: commit in /repo; status known = recorded).")
    json.dump(m, open(os.path.join(ROOT, "MANIFEST.json"), "w"), indent=1)
    print("claimed:", [c["property_id"] for c in checks])

NA = {}

if __name__ == "__main__":
    main()
