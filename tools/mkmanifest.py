#!/usr/bin/env python3
"""Regenerates /verif/MANIFEST.json from the table below (one entry per claimed property)."""
import json, os

ROOT = os.path.dirname(os.path.dirname(os.path.abspath(__file__)))
TECH = "property-based testing (pgregory.net/rapid)"

CLAIMED = {
 "C11": dict(
  text="Generated histories of signed transactions over all ten modules run through InitChain/FinalizeBlock/Commit on several replicas of one genesis: a second run in the same process (fresh map seeds), a replica restarted (new app object over the same DB) at generated block boundaries, a replica in a second OS process, and a replica executed after a real sleep with chain time placed so that candidate host-clock thresholds are straddled. Per block the app hash, tx results and a hash of every store, and at the end the exported genesis (exported several times) must be byte-identical.",
  note="Bounded random search (<=60 blocks, <=4 txs per block, 4 funded users); one amd64 host, so cross-architecture floating point is not varied; host-clock thresholds are straddled only for candidate durations (constants next to clock reads in the sources plus a fixed grid) with 6-10 s margins; SDK/IAVL/rapid trusted.",
  technique=TECH + ": state machine over blocks, differential between replicas (restart / second process / delayed wall clock), shrinking to JSON replay",
  ref="DESIGN.md §4 C11"),
 "C12": dict(
  text="Generated all-module histories on an ABCI node; at generated heights (as-is) and at the end (as-is and zero-height after the modules' own preparation) the state is exported and imported into a fresh application: import must be accepted and the registered invariants hold, exporting the imported application again must give the same genesis for each of the ten modules, and a catalogue of ~100-300 queries about durable objects (pools, farm pools and farmers with pending rewards, open HTLCs and asset supplies, tokens and burned totals, NFT/MT classes, holdings and supplies, service definitions/bindings/withdraw addresses/contexts, feeds with value history, pending random requests, every record by id) must answer byte-identically. Three recorded findings are excluded by narrowly named clauses whose hit counts are reported.",
  note="Bounded random search (<=60 blocks, 4 funded users, default parameters except what histories change); queue membership after import is not observable through genesis or queries and is not asserted; SDK/IAVL/rapid trusted.",
  technique=TECH + ": state machine over blocks, round-trip (export -> import -> export) and differential query oracle, shrinking to JSON replay",
  ref="DESIGN.md §4 C12"),
 "C19": dict(
  text="Generated histories of record creations (byte-identical duplicates within one tx, one block and across blocks), blocks and other-module messages; after every step every id ever returned is read back and compared with what was submitted, ids are checked pairwise distinct and the raw record store is checked to only grow.",
  note="Bounded random search (history length, 3 creators, small content alphabet); SDK/bank/store and rapid trusted; no proof of absence.",
  technique=TECH + ": state machine vs reference map, shrinking to JSON replay",
  ref="DESIGN.md §4 C19"),
}

def main():
    props = [json.loads(l) for l in open(os.path.join(ROOT, "properties.jsonl"))]
    checks, na = [], []
    for p in props:
        pid = p["id"]
        c = CLAIMED.get(pid)
        cfg = os.path.join(ROOT, "checks", pid + ".json")
        if c is None or not os.path.exists(cfg):
            na.append(dict(property_id=pid, reason=(c or {}).get("na") or NA.get(pid) or "check not built yet in this round (work in progress; DESIGN.md §4 describes the planned generated check)"))
            continue
        checks.append(dict(
            property_id=pid, quick_cmd=f"./check {pid} --tier quick", thorough_cmd=f"./check {pid} --tier thorough",
            evidence_file=f"/verif/evidence/{pid}.json", replay_cmd_template=f"./check {pid} --replay {{path}}", engine="rapid-harness",
            level_claimed=dict(category="exploration", text=c["text"], design_ref=c["ref"]),
            level_note=c["note"], technique=c["technique"]))
    m = dict(
        version=1, setup_cmd="./check --build",
        hooks=dict(guard="verif", enable="go test -tags verif (the check driver always builds the harness with -tags verif; no hook code exists in /repo, so the tag currently selects nothing)",
                   baseline_off_cmd="/verif/baseline.sh", source_commits=[], add_only=True),
        engines=[dict(name="rapid-harness", path="/verif/harness", serves_properties=[c["property_id"] for c in checks],
                      kind_free_text="Go test binaries (one per property package under harness/props): pgregory.net/rapid v1.3.0 state machines and pure properties over a cache-branched SimApp (K-driver) or an ABCI-level node (A-driver), driven by /verif/check which shards, merges statistics into evidence and maps outcomes to exit codes")],
        checks=checks, not_applicable=na,
        notes="All checks are property-based tests / fuzzing (DESIGN.md). Genuine defects found are listed in known_findings.json (status fixed = repaired by a fix: commit in /repo; status known = recorded).")
    json.dump(m, open(os.path.join(ROOT, "MANIFEST.json"), "w"), indent=1)
    print("claimed:", [c["property_id"] for c in checks])

NA = {}

if __name__ == "__main__":
    main()
