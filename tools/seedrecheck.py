#!/usr/bin/env python3
"""Re-runs the checks against an already confirmed seeded change kept under /verif/seeded/<name>.

  tools/seedrecheck.py <name> [--props C05,C06] [--tier quick]

Applies seeded/<name>/patch.diff to a fresh scratch worktree of /repo HEAD (removed afterwards), runs
`VERIF_REPO=<scratch> ./check <property>` and records the result in meta.json: the first evaluation is
kept under verification.first_checks, the latest under verification.checks.
"""
import json, os, re, subprocess, sys, time

ROOT = os.path.dirname(os.path.dirname(os.path.abspath(__file__)))


def sh(cmd, cwd=None):
    p = subprocess.run(cmd, shell=True, cwd=cwd, stdout=subprocess.PIPE, stderr=subprocess.STDOUT, text=True)
    return p.returncode, p.stdout


def main():
    name = sys.argv[1]
    d = os.path.join(ROOT, "seeded", name)
    meta = json.load(open(os.path.join(d, "meta.json")))
    v = meta.setdefault("verification", {})
    props = [meta.get("property")]
    if "--props" in sys.argv:
        props = sys.argv[sys.argv.index("--props") + 1].split(",")
    tier = "quick"
    if "--tier" in sys.argv:
        tier = sys.argv[sys.argv.index("--tier") + 1]
    wt = f"/tmp/seedre-{name}"
    sh(f"git -C /repo worktree remove --force {wt}")
    sh(f"git -C /repo worktree add --detach {wt}")
    try:
        rc, o = sh(f"git apply --3way {os.path.join(d, 'patch.diff')}", cwd=wt)
        if rc != 0:
            print("patch does not apply:", o)
            raise SystemExit(2)
        checks = []
        for pid in props:
            t0 = time.time()
            p = subprocess.run([os.path.join(ROOT, "check"), pid, "--tier", tier], cwd=ROOT, env=dict(os.environ, VERIF_REPO=wt),
                               stdout=subprocess.PIPE, stderr=subprocess.STDOUT, text=True)
            sigs = sorted(set(re.findall(r"\b(C\d\d/[A-Za-z0-9_./-]+)", p.stdout)))
            checks.append(dict(property=pid, tier=tier, exit=p.returncode, caught=p.returncode == 1, signatures=sigs[:5], wall_s=round(time.time() - t0, 1)))
            open(os.path.join(d, f"check-{pid}.log"), "w").write(p.stdout[-6000:])
    finally:
        sh(f"git -C /repo worktree remove --force {wt}")
        sh("rm -rf /verif/violations-scratch")
    if "first_checks" not in v:
        v["first_checks"] = v.get("checks", [])
    keep = [c for c in v.get("checks", []) if c["property"] not in props]
    v["checks"] = checks + keep
    v["rechecked_at_repo_head"] = sh("git -C /repo rev-parse --short HEAD")[1].strip()
    json.dump(meta, open(os.path.join(d, "meta.json"), "w"), indent=1)
    print(name, [(c["property"], c["exit"], c["signatures"][:2], c["wall_s"]) for c in checks])


if __name__ == "__main__":
    main()
