#!/usr/bin/env python3
"""Prints a markdown table of the seeded changes under /verif/seeded from their meta.json files."""
import json, glob, os, re
rows = []
for d in sorted(glob.glob('/verif/seeded/C*-*')):
    m = json.load(open(os.path.join(d, 'meta.json')))
    v = m.get('verification', {})
    caught = []
    for c in v.get('checks', []):
        sigs = [s for s in c.get('signatures', []) if not s.endswith('.json') and 'asis-running' not in s and 'oracle-value-history' not in s and 'record-ids' not in s]
        caught.append(f"{c['property']}: {'caught' if c.get('caught') else 'not caught'}" + (f" (`{sigs[0]}`)" if sigs and c.get('caught') else ''))
    s = re.sub(r'\s+', ' ', m.get('summary', ''))[:230]
    w = re.sub(r'\s+', ' ', m.get('manifests_when', ''))[:200]
    rows.append(f"| {os.path.basename(d)} | {s} | {w} | {'yes' if v.get('confirmed') else 'NO'} | {'; '.join(caught)} |")
print("| seed | change | needs | confirmed | quick check result |\n|---|---|---|---|---|")
print("\n".join(rows))
