#!/usr/bin/env python3-vt
import json,jsonschema,glob,sys
jsonschema.validate(json.load(open('/verif/MANIFEST.json')),json.load(open('/root/.vp/MANIFEST.schema.json')))
es=json.load(open('/root/.vp/EVIDENCE.schema.json'))
m=json.load(open('/verif/MANIFEST.json'))
for c in m['checks']:
    jsonschema.validate(json.load(open(c['evidence_file'])),es)
ids={c['property_id'] for c in m['checks']}|{n['property_id'] for n in m.get('not_applicable',[])}
allp={json.loads(l)['id'] for l in open('/verif/properties.jsonl')}
assert ids==allp,(allp-ids,ids-allp)
print('manifest+evidence valid; claimed',sorted(c['property_id'] for c in m['checks']))
